#!/bin/sh
# Builds the verification engine offline. Run from /verif.
set -e
cd "$(dirname "$0")"
export GOFLAGS=-mod=mod GOPROXY=off GOSUMDB=off GOTOOLCHAIN=local
mkdir -p bin evidence replays
(cd engine && go build -o ../bin/govc .)
echo "setup ok"
