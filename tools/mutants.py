#!/usr/bin/env python3
"""Own mutation corpus: small property-breaking edits (the M lists of DESIGN.md section 4 and more),
each applied to a scratch copy of /repo; the named property check must report a VIOLATION.
Usage: tools/mutants.py [--jobs N] [name-substring...]
Every mutant: (name, property, file, old, new). `old` must occur exactly once in the file."""
import json, os, shutil, subprocess, sys, tempfile, concurrent.futures

V = os.path.dirname(os.path.dirname(os.path.abspath(__file__)))
M = [
 # ---- C01
 ("c01-second-pass-without-not", "C01", "service/cipher_list.go", "\t\tif !matchesIP(e, clientIP) {", "\t\tif matchesIP(e, clientIP) {"),
 ("c01-snapshot-one-short", "C01", "service/cipher_list.go", "make([]*list.Element, cl.list.Len())", "make([]*list.Element, cl.list.Len()-1)"),
 ("c01-return-first-cipher", "C01", "service/tcp.go", "\t\treturn entry, elt\n", "\t\treturn entry, ciphers[0]\n"),
 ("c01-continue-on-success", "C01", "service/tcp.go", "\t\tif err != nil {\n\t\t\tdebugTCP(l, \"Failed to decrypt length.\"", "\t\tif err == nil {\n\t\t\tdebugTCP(l, \"Failed to decrypt length.\""),
 ("c01-snapshot-without-lock", "C19", "service/cipher_list.go", "\tcl.mu.RLock()\n\tdefer cl.mu.RUnlock()\n", ""),
 ("c01-mark-used-on-failure", "C01", "service/tcp.go", "\tif entry == nil {\n\t\t// TODO: Ban", "\tcipherList.MarkUsedByClientIP(elt, clientIP)\n\tif entry == nil {\n\t\t// TODO: Ban"),
 ("c01-snapshot-duplicates-front", "C01", "service/cipher_list.go", "\t\tif !matchesIP(e, clientIP) {\n\t\t\tcipherArray[i] = e\n", "\t\tif !matchesIP(e, clientIP) {\n\t\t\tcipherArray[i] = cl.list.Front()\n"),
 ("c01-snapshot-second-pass-from-second", "C01", "service/cipher_list.go", "\t// Second pass: include all remaining ciphers in recency order.\n\tfor e := cl.list.Front(); e != nil; e = e.Next() {", "\t// Second pass: include all remaining ciphers in recency order.\n\tfor e := cl.list.Front().Next(); e != nil; e = e.Next() {"),
 ("c03-udp-search-returns-last-id", "C03", "service/udp.go", "\t\treturn buf, id, cryptoKey, nil\n", "\t\treturn buf, snapshot[len(snapshot)-1].Value.(*CipherEntry).ID, cryptoKey, nil\n"),
 ("c03-udp-search-stops-early", "C03", "service/udp.go", "\t\t\tdebugUDP(l, \"Failed to unpack.\", id, slog.Any(\"err\", err))\n\t\t\tcontinue\n", "\t\t\tdebugUDP(l, \"Failed to unpack.\", id, slog.Any(\"err\", err))\n\t\t\tbreak\n"),
 ("c15-clean-relay-reports-error", "C15", "service/tcp.go", "\tif fromTargetErr != nil {\n\t\treturn onet.NewConnectionError(\"ERR_RELAY_TARGET\"", "\tif fromTargetErr == nil {\n\t\treturn onet.NewConnectionError(\"ERR_RELAY_TARGET\""),
 ("c12-accept-loop-exits-on-any-error", "C12", "service/listeners.go", "\t\t\t\tif errors.Is(err, net.ErrClosed) {\n\t\t\t\t\tclose(acceptCh)", "\t\t\t\tif err != nil && errors.Is(err, err) {\n\t\t\t\t\tclose(acceptCh)"),
 ("c02-write-deadline-armed", "C02", "service/tcp.go", "\touterConn.SetReadDeadline(readDeadline)\n", "\touterConn.SetDeadline(readDeadline)\n"),
 ("c17-key-not-canonical", "C17", "prometheus/metrics.go", "\treturn &IPKey{ip, accessKey}, nil", "\treturn &IPKey{netip.AddrFrom16(ip.As16()), accessKey}, nil"),
 # ---- C02
 ("c02-prefix-truncated-to-salt", "C02", "service/tcp.go", "io.MultiReader(bytes.NewReader(firstBytes), clientReader)", "io.MultiReader(bytes.NewReader(firstBytes[:entry.CryptoKey.SaltSize()]), clientReader)"),
 ("c02-reader-on-raw-conn", "C02", "service/tcp.go", "shadowsocks.NewReader(clientReader, cipherEntry.CryptoKey)", "shadowsocks.NewReader(func() io.Reader { _ = clientReader; return clientConn }(), cipherEntry.CryptoKey)"),
 ("c02-target-fin-dropped", "C02", "service/tcp.go", "\t\ttgtConn.CloseWrite()\n", ""),
 ("c02-no-wait-for-client-direction", "C02", "service/tcp.go", "\tfromClientErr := <-fromClientErrCh\n\tif fromClientErr != nil {", "\tif fromTargetErr != nil {\n\t\treturn onet.NewConnectionError(\"ERR_RELAY_TARGET\", \"x\", fromTargetErr)\n\t}\n\tfromClientErr := <-fromClientErrCh\n\tif fromClientErr != nil {"),
 ("c02-read-returns-len", "C15", "service/metrics/metrics.go", "\tn, err := c.StreamConn.Read(b)\n\t*c.readCount += int64(n)\n\treturn n, err", "\tn, err := c.StreamConn.Read(b)\n\t*c.readCount += int64(n)\n\treturn len(b), err"),
 ("c02-fin-before-drain", "C02", "service/tcp.go", "\t\tif fromClientErr != nil {\n\t\t\t// Drain to prevent a close in the case of a cipher error.\n\t\t\tio.Copy(io.Discard, clientConn)\n\t\t}\n\t\tclientConn.CloseRead()", "\t\ttgtConn.CloseWrite()\n\t\tif fromClientErr != nil {\n\t\t\tio.Copy(io.Discard, clientConn)\n\t\t}\n\t\tclientConn.CloseRead()"),
 # ---- C03
 ("c03-trial-decrypt-in-place", "C03", "service/udp.go", "buf, err := shadowsocks.Unpack(dst, src, cryptoKey)", "buf, err := shadowsocks.Unpack(src, src, cryptoKey)"),
 ("c03-payload-includes-address", "C03", "service/udp.go", "\tpayload := textData[len(tgtAddr):]\n", "\tpayload := textData\n"),
 ("c03-existing-assoc-uses-list", "C03", "service/udp.go", "textData, err := shadowsocks.Unpack(nil, cipherData, targetConn.cryptoKey)", "textData, _, _, err := findAccessKeyUDP(clientAddr.(*net.UDPAddr).AddrPort().Addr(), textBuf, cipherData, h.ciphers, h.logger)"),
 ("c03-addrstart-fixed", "C03", "service/udp.go", "addrStart := bodyStart - len(srcAddr)", "addrStart := bodyStart - maxAddrLen"),
 ("c03-reply-other-key", "C03", "service/udp.go", "buf, err := shadowsocks.Pack(packBuf, plaintextBuf, targetConn.cryptoKey)", "var otherKey *shadowsocks.EncryptionKey\n\t\t\tbuf, err := shadowsocks.Pack(packBuf, plaintextBuf, otherKey)"),
 # ---- C04
 ("c04-key-by-ip-only", "C04", "service/udp.go", "\t\t\ttargetConn = nm.Get(clientAddr.String())\n", "\t\t\ttargetConn = nm.Get(clientAddr.(*net.UDPAddr).IP.String())\n"),
 ("c04-add-before-validate", "C04", "service/udp.go", "\t\t\t\tvar onetErr *onet.ConnectionError\n\t\t\t\tif payload, tgtUDPAddr, onetErr = h.validatePacket(textData); onetErr != nil {\n\t\t\t\t\treturn onetErr\n\t\t\t\t}\n\n\t\t\t\tudpConn, err := net.ListenPacket(\"udp\", \"\")\n\t\t\t\tif err != nil {\n\t\t\t\t\treturn onet.NewConnectionError(\"ERR_CREATE_SOCKET\", \"Failed to create UDP socket\", err)\n\t\t\t\t}\n\t\t\t\ttargetConn = nm.Add(clientAddr, clientConn, cryptoKey, udpConn, keyID)",
   "\t\t\t\tudpConn, err := net.ListenPacket(\"udp\", \"\")\n\t\t\t\tif err != nil {\n\t\t\t\t\treturn onet.NewConnectionError(\"ERR_CREATE_SOCKET\", \"Failed to create UDP socket\", err)\n\t\t\t\t}\n\t\t\t\ttargetConn = nm.Add(clientAddr, clientConn, cryptoKey, udpConn, keyID)\n\t\t\t\tvar onetErr *onet.ConnectionError\n\t\t\t\tif payload, tgtUDPAddr, onetErr = h.validatePacket(textData); onetErr != nil {\n\t\t\t\t\treturn onetErr\n\t\t\t\t}"),
 ("c04-reply-to-last-sender", "C04", "service/udp.go", "proxyClientBytes, err = clientConn.WriteTo(buf, clientAddr)", "proxyClientBytes, err = clientConn.WriteTo(buf, raddr)"),
 ("c04-set-overwrites-all", "C04", "service/udp.go", "\tm.keyConn[key] = entry\n\treturn entry", "\tm.keyConn = map[string]*natconn{key: entry}\n\treturn entry"),
 ("c04-del-wrong-key", "C04", "service/udp.go", "\t\tif pc := m.del(clientAddr.String()); pc != nil {", "\t\tif pc := m.del(clientAddr.Network()); pc != nil {"),
 # ---- C05
 ("c05-drop-cgnat", "C05", "net/private_net.go", "\t\t\"100.64.0.0/10\",\n", ""),
 ("c05-slash12-to-16", "C05", "net/private_net.go", "\"172.16.0.0/12\"", "\"172.16.0.0/16\""),
 ("c05-control-ignores-validator", "C05", "service/tcp.go", "\t\treturn targetIPValidator(net.ParseIP(ip))\n", "\t\ttargetIPValidator(net.ParseIP(ip))\n\t\treturn nil\n"),
 ("c05-validate-only-first-datagram", "C05", "service/udp.go", "\t\t\t\tvar onetErr *onet.ConnectionError\n\t\t\t\tif payload, tgtUDPAddr, onetErr = h.validatePacket(textData); onetErr != nil {\n\t\t\t\t\treturn onetErr\n\t\t\t\t}\n\t\t\t}\n", "\t\t\t\ttgtAddr := socks.SplitAddr(textData)\n\t\t\t\ttgtUDPAddr, _ = net.ResolveUDPAddr(\"udp\", tgtAddr.String())\n\t\t\t\tpayload = textData[len(tgtAddr):]\n\t\t\t}\n"),
 ("c05-private-check-skipped", "C05", "net/private_net.go", "\tif IsPrivateAddress(ip) {", "\tif false && IsPrivateAddress(ip) {"),
 ("c05-default-dialer-allows-all", "C05", "service/tcp.go", "var defaultDialer = makeValidatingTCPStreamDialer(onet.RequirePublicIP)", "var defaultDialer = makeValidatingTCPStreamDialer(func(net.IP) error { return nil })"),
 ("c05-packet-handler-no-policy", "C05", "service/udp.go", "\t\ttargetIPValidator: onet.RequirePublicIP,\n", "\t\ttargetIPValidator: func(net.IP) error { return nil },\n"),
 # ---- C06
 ("c06-no-absorb", "C06", "service/tcp.go", "\t\th.absorbProbe(outerConn, connMetrics, authErr.Status, proxyMetrics)\n", ""),
 ("c06-close-on-replay", "C06", "service/tcp.go", "\t\t\treturn id, nil, onet.NewConnectionError(status, \"Replay detected\", nil)", "\t\t\tclientConn.Close()\n\t\t\treturn id, nil, onet.NewConnectionError(status, \"Replay detected\", nil)"),
 ("c06-no-drain-on-bad-address", "C06", "service/tcp.go", "\t\t// Drain to prevent a close on cipher error.\n\t\tio.Copy(io.Discard, outerConn)\n", ""),
 ("c06-short-read-for-key", "C06", "service/tcp.go", "\tfirstBytes := make([]byte, bytesForKeyFinding)", "\tfirstBytes := make([]byte, bytesForKeyFinding-16)"),
 # ---- C07
 ("c07-archive-reset", "C07", "service/replay.go", "\t\tc.archive = c.active\n", "\t\tc.archive = make(map[uint32]empty)\n"),
 ("c07-rotate-early", "C07", "service/replay.go", "if len(c.active) >= c.capacity {", "if len(c.active) >= c.capacity-2 {"),
 ("c07-per-service-cache", "C07", "cmd/outline-ss-server/main.go", "\t\t\t\t\tservice.WithReplayCache(&s.replayCache),\n\t\t\t\t\tservice.WithLogger(slog.Default()),\n\t\t\t\t)\n\t\t\t\tif err != nil {", "\t\t\t\t\tservice.WithReplayCache(func() *service.ReplayCache { c := service.NewReplayCache(10); return &c }()),\n\t\t\t\t\tservice.WithLogger(slog.Default()),\n\t\t\t\t)\n\t\t\t\tif err != nil {"),
 ("c07-resize-clears", "C07", "service/replay.go", "\tc.capacity = capacity\n", "\tc.capacity = capacity\n\tc.active = make(map[uint32]empty)\n"),
 ("c07-accept-archive-hit", "C07", "service/replay.go", "\treturn !inArchive\n", "\treturn true || !inArchive\n"),
 ("c07-replay-not-refused", "C07", "service/tcp.go", "if isServerSalt || !replayCache.Add(cipherEntry.ID, clientSalt) {", "if replayCache.Add(cipherEntry.ID, clientSalt); isServerSalt {"),
 # ---- C08
 ("c08-min-entropy-24", "C08", "service/cipher_list.go", "const minSaltEntropy = 16", "const minSaltEntropy = 24"),
 ("c08-tag-three-bytes", "C08", "service/server_salt.go", "return bytes.Equal(tag[:serverSaltMarkLen], mark)", "return bytes.Equal(tag[:serverSaltMarkLen-1], mark[:serverSaltMarkLen-1])"),
 ("c08-cache-first", "C08", "service/tcp.go", "if isServerSalt || !replayCache.Add(cipherEntry.ID, clientSalt) {", "if !replayCache.Add(cipherEntry.ID, clientSalt) || isServerSalt {"),
 ("c08-no-salt-generator", "C08", "service/tcp.go", "\t\tssw.SetSaltGenerator(cipherEntry.SaltGenerator)\n", ""),
 ("c08-tag-before-random", "C08", "service/server_salt.go", "\tif _, err := rand.Read(prefix); err != nil {\n\t\treturn err\n\t}\n\ttag := sg.getTag(prefix)\n", "\ttag := sg.getTag(prefix)\n\tif _, err := rand.Read(prefix); err != nil {\n\t\treturn err\n\t}\n"),
 ("c08-wrong-secret", "C08", "service/cipher_list.go", "saltGenerator = NewServerSaltGenerator(secret)", "saltGenerator = NewServerSaltGenerator(id)"),
 # ---- C09
 ("c09-dedup-on-secret-only", "C09", "cmd/outline-ss-server/main.go", "key := cipherKey{keyConfig.Cipher, keyConfig.Secret}", "key := cipherKey{\"\", keyConfig.Secret}"),
 ("c09-list-hoisted", "C09", "cmd/outline-ss-server/main.go", "\t\t\t\tciphers, err := newCipherListFromConfig(serviceConfig)\n", "\t\t\t\tciphers, err := newCipherListFromConfig(config.Services[0])\n"),
 ("c09-validate-dup-ignored", "C09", "cmd/outline-ss-server/config.go", "\t\t\tif _, exists := existingListeners[key]; exists {\n\t\t\t\treturn fmt.Errorf(\"listener of type %s with address %s already exists.\", lnConfig.Type, lnConfig.Address)\n\t\t\t}\n", ""),
 ("c09-packet-handler-other-list", "C09", "service/shadowsocks.go", "s.ph = NewPacketHandler(s.natTimeout, s.ciphers, s.metrics,", "s.ph = NewPacketHandler(s.natTimeout, NewCipherList(), s.metrics,"),
 ("c09-dup-keeps-going", "C09", "cmd/outline-ss-server/main.go", "\t\t\tslog.Debug(\"Encryption key already exists. Skipping.\", \"id\", keyConfig.ID)\n\t\t\tcontinue\n", "\t\t\tslog.Debug(\"Encryption key already exists. Skipping.\", \"id\", keyConfig.ID)\n"),
 # ---- C10
 ("c10-stop-before-start", "C10", "cmd/outline-ss-server/main.go", "\tstopConfig, err := s.runConfig(*config)\n\tif err != nil {\n\t\treturn err\n\t}\n\tif err := s.Stop(); err != nil {\n\t\tslog.Warn(\"Failed to stop old config.\", \"err\", err)\n\t}\n", "\tif err := s.Stop(); err != nil {\n\t\tslog.Warn(\"Failed to stop old config.\", \"err\", err)\n\t}\n\tstopConfig, err := s.runConfig(*config)\n\tif err != nil {\n\t\treturn err\n\t}\n"),
 ("c10-assign-before-check", "C10", "cmd/outline-ss-server/main.go", "\tstopConfig, err := s.runConfig(*config)\n\tif err != nil {\n\t\treturn err\n\t}\n", "\tstopConfig, err := s.runConfig(*config)\n\ts.stopConfig = stopConfig\n\tif err != nil {\n\t\treturn err\n\t}\n"),
 ("c10-error-without-close", "C10", "cmd/outline-ss-server/main.go", "\t\t\tif err := lnSet.Close(); err != nil {\n\t\t\t\tslog.Warn(\"Failed to clean up config that failed to start.\", \"err\", err)\n\t\t\t}\n", ""),
 # ---- C11
 ("c11-close-socket-while-in-use", "C11", "service/listeners.go", "\t\t\tm.count--\n\t\t\tif m.count > 0 {\n\t\t\t\tm.mu.Unlock()\n\t\t\t\treturn nil\n\t\t\t}\n\t\t\tm.ln.Close()", "\t\t\tm.count--\n\t\t\tm.ln.Close()\n\t\t\tif m.count > 0 {\n\t\t\t\tm.mu.Unlock()\n\t\t\t\treturn nil\n\t\t\t}\n\t\t\tm.ln.Close()"),
 ("c11-no-wait", "C11", "service/tcp.go", "\tdefer running.Wait()\n", ""),
 ("c11-serve-closes-conn", "C11", "service/tcp.go", "\t\trunning.Add(1)\n\t\tgo func() {", "\t\trunning.Add(1)\n\t\tdefer clientConn.Close()\n\t\tgo func() {"),
 # ---- C12
 ("c12-stream-close-keeps-acceptch", "C12", "service/listeners.go", "\tsl.acceptCh = nil\n", ""),
 ("c12-manager-entry-not-deleted", "C12", "service/listeners.go", "\t\t\t\tdelete(m.streamListeners, addr)\n", ""),
 ("c12-packet-close-without-close", "C12", "service/listeners.go", "\tclose(pc.closeCh)\n\tif pc.onCloseFunc != nil {", "\tif pc.onCloseFunc != nil {"),
 ("c12-last-close-keeps-socket", "C12", "service/listeners.go", "\t\t\tclose(m.doneCh)\n\t\t\tm.pc.Close()\n\t\t\tm.pc = nil\n", "\t\t\tclose(m.doneCh)\n\t\t\tm.pc = nil\n"),
 # ---- C13
 ("c13-callback-under-lock", "C13", "service/listeners.go", "\t\t\tm.ln.Close()\n\t\t\tm.ln = nil\n\t\t\tonCloseFunc := m.onCloseFunc\n\t\t\tm.onCloseFunc = nil\n", "\t\t\tm.ln.Close()\n\t\t\tm.ln = nil\n\t\t\tonCloseFunc := m.onCloseFunc\n\t\t\tm.onCloseFunc = nil\n\t\t\tif onCloseFunc != nil {\n\t\t\t\tonCloseFunc()\n\t\t\t}\n"),
 ("c13-relock-in-listen", "C13", "service/listeners.go", "\tln, err := streamLn.Acquire()\n\tif err != nil {\n\t\treturn nil, fmt.Errorf(\"unable to create stream listener", "\tm.mu.Lock()\n\tln, err := streamLn.Acquire()\n\tif err != nil {\n\t\treturn nil, fmt.Errorf(\"unable to create stream listener"),
 # ---- C14
 ("c14-deadline-can-decrease", "C14", "service/udp.go", "\tif newDeadline.After(c.readDeadline) {", "\tif newDeadline.Before(c.readDeadline) || c.readDeadline.IsZero() {"),
 ("c14-dns-timeout-for-all", "C14", "service/udp.go", "\tif isDNS {\n\t\t// Shorten timeout", "\tif true {\n\t\t// Shorten timeout"),
 ("c14-deadline-not-tracked", "C14", "service/udp.go", "\t\tc.readDeadline = newDeadline\n\t\tc.SetReadDeadline(newDeadline)", "\t\tc.SetReadDeadline(newDeadline)"),
 ("c14-remove-in-loop", "C14", "service/udp.go", "\t\ttimedCopy(clientAddr, clientConn, entry, m.logger)\n\t\tconnMetrics.RemoveNatEntry()\n", "\t\tconnMetrics.RemoveNatEntry()\n\t\ttimedCopy(clientAddr, clientConn, entry, m.logger)\n"),
 ("c14-close-before-del", "C14", "service/udp.go", "\t\tif pc := m.del(clientAddr.String()); pc != nil {\n\t\t\tpc.Close()\n\t\t}", "\t\tentry.Close()\n\t\tm.del(clientAddr.String())"),
 ("c14-fastclose-any-port", "C14", "service/udp.go", "\t\tif isDNS(addr) {\n\t\t\t// The next ReadFrom() should time out immediately.", "\t\tif true {\n\t\t\t// The next ReadFrom() should time out immediately."),
 ("c14-no-close-at-exit", "C14", "service/udp.go", "\tdefer nm.Close()\n", ""),
 # ---- C15
 ("c15-closed-twice", "C15", "service/tcp.go", "\tconnError := h.handleConnection(ctx, measuredClientConn, connMetrics, &proxyMetrics)\n", "\tdefer connMetrics.AddClosed(\"OK\", proxyMetrics, 0)\n\tconnError := h.handleConnection(ctx, measuredClientConn, connMetrics, &proxyMetrics)\n"),
 ("c15-probe-before-drain", "C15", "service/tcp.go", "\t_, drainErr := io.Copy(io.Discard, clientConn) // drain socket\n\tdrainResult := drainErrToString(drainErr)", "\tconnMetrics.AddProbe(status, \"eof\", proxyMetrics.ClientProxy)\n\t_, drainErr := io.Copy(io.Discard, clientConn) // drain socket\n\tdrainResult := drainErrToString(drainErr)"),
 ("c15-target-counters-swapped", "C15", "service/tcp.go", "metrics.MeasureConn(tgtConn, &proxyMetrics.ProxyTarget, &proxyMetrics.TargetProxy)", "metrics.MeasureConn(tgtConn, &proxyMetrics.TargetProxy, &proxyMetrics.ProxyTarget)"),
 ("c15-status-always-ok", "C15", "service/tcp.go", "\t\tstatus = connError.Status\n\t\th.logger.LogAttrs(nil, slog.LevelDebug, \"TCP: Error\"", "\t\th.logger.LogAttrs(nil, slog.LevelDebug, \"TCP: Error\""),
 ("c15-direction-label-twice", "C15", "prometheus/metrics.go", "\taddIfNonZero(proxyTargetBytes, c.dataBytesPerKey, \"p>t\", accessKey)", "\taddIfNonZero(proxyTargetBytes, c.dataBytesPerKey, \"c>p\", accessKey)"),
 ("c15-auth-reported-on-failure", "C15", "service/tcp.go", "\tid, innerConn, authErr := h.authenticate(outerConn)\n\tif authErr != nil {", "\tid, innerConn, authErr := h.authenticate(outerConn)\n\tconnMetrics.AddAuthenticated(id)\n\tif authErr != nil {"),
 # ---- C16
 ("c16-report-only-ok", "C16", "service/udp.go", "\t\tif targetConn != nil {\n\t\t\ttargetConn.metrics.AddPacketFromClient", "\t\tif targetConn != nil && status == \"OK\" {\n\t\t\ttargetConn.metrics.AddPacketFromClient"),
 ("c16-payload-len-before-write", "C16", "service/udp.go", "\t\t\tproxyTargetBytes, err = targetConn.WriteTo(payload, tgtUDPAddr) // accept only UDPAddr despite the signature", "\t\t\tproxyTargetBytes = len(payload)\n\t\t\t_, err = targetConn.WriteTo(payload, tgtUDPAddr)"),
 ("c16-remove-dropped", "C16", "service/udp.go", "\t\tconnMetrics.RemoveNatEntry()\n", ""),
 ("c16-target-report-on-expiry", "C16", "service/udp.go", "\t\tif expired {\n\t\t\tbreak\n\t\t}\n\t\ttargetConn.metrics.AddPacketFromTarget(status, int64(bodyLen), int64(proxyClientBytes))", "\t\ttargetConn.metrics.AddPacketFromTarget(status, int64(bodyLen), int64(proxyClientBytes))\n\t\tif expired {\n\t\t\tbreak\n\t\t}"),
 ("c16-wrong-key-id", "C16", "service/udp.go", "\tconnMetrics := m.metrics.AddUDPNatEntry(clientAddr, keyID)", "\tconnMetrics := m.metrics.AddUDPNatEntry(clientAddr, \"\")"),
 # ---- C17
 ("c17-start-keeps-old-time", "C17", "prometheus/metrics.go", "\t\tclient = &activeClient{info: clientInfo, startTime: now()}", "\t\tclient = &activeClient{info: clientInfo}"),
 ("c17-stop-no-report", "C17", "prometheus/metrics.go", "\t\tc.reportTunnelTime(ipKey, client, now())\n\t\tdelete(c.activeClients, ipKey)", "\t\tdelete(c.activeClients, ipKey)"),
 ("c17-collect-no-reset", "C17", "prometheus/metrics.go", "\t// Reset the start time now that the tunnel time has been reported.\n\tclient.startTime = tNow\n", ""),
 ("c17-location-not-reported", "C17", "prometheus/metrics.go", "\tc.tunnelTimePerLocation.WithLabelValues(client.info.CountryCode.String(), asnLabel(client.info.ASN.Number), client.info.ASN.Organization).Add(tunnelTime.Seconds())\n", ""),
 ("c17-unauth-stops", "C17", "prometheus/metrics.go", "\tif cm.accessKey != \"\" {\n\t\tipKey, err := toIPKey(cm.clientAddr, cm.accessKey)", "\tif true {\n\t\tipKey, err := toIPKey(cm.clientAddr, cm.accessKey)"),
 ("c17-start-at-open", "C17", "prometheus/metrics.go", "\ttcpServiceMetrics.openConnection(clientInfo)\n", "\ttcpServiceMetrics.openConnection(clientInfo)\n\tif k, err := toIPKey(clientConn.RemoteAddr(), \"\"); err == nil {\n\t\ttunnelTimeMetrics.startConnection(*k)\n\t}\n"),
 # ---- C18
 ("c18-payload-off-by-one", "C18", "service/udp.go", "\tpayload := textData[len(tgtAddr):]\n", "\tpayload := textData[len(tgtAddr)+1:]\n"),
 ("c18-header-slice-too-long", "C18", "service/tcp.go", "firstBytes[:cryptoKey.SaltSize()+2+cryptoKey.TagSize()]", "firstBytes[:cryptoKey.SaltSize()+2+2*cryptoKey.TagSize()+1]"),
 ("c18-no-recover-udp", "C18", "service/udp.go", "\t\t\tdefer func() {\n\t\t\t\tif r := recover(); r != nil {\n\t\t\t\t\tslog.Error(\"Panic in UDP loop: %v. Continuing to listen.\", r)\n\t\t\t\t\tdebug.PrintStack()\n\t\t\t\t}\n\t\t\t}()\n", "\t\t\t_ = debug.PrintStack\n"),
 ("c18-assert-before-error-check", "C18", "service/udp.go", "\t\t\t// Error from ReadFrom\n\t\t\tif err != nil {", "\t\t\t_ = clientAddr.(*net.UDPAddr)\n\t\t\t// Error from ReadFrom\n\t\t\tif err != nil {"),
 ("c18-no-bound-check-src-addr", "C18", "service/udp.go", "\t\t\tif len(srcAddr) > maxAddrLen {", "\t\t\tif false && len(srcAddr) > maxAddrLen {"),
 ("c18-prehash-index", "C18", "service/replay.go", "\t\tbuf[i&0x3] ^= v\n", "\t\tbuf[i&0x7] ^= v\n"),
 # ---- C19
 ("c19-resize-unlocked", "C19", "service/replay.go", "\tc.mutex.Lock()\n\tdefer c.mutex.Unlock()\n\tc.capacity = capacity", "\tc.capacity = capacity"),
 ("c19-natmap-get-unlocked", "C19", "service/udp.go", "\tm.RLock()\n\tdefer m.RUnlock()\n\treturn m.keyConn[key]", "\treturn m.keyConn[key]"),
 ("c19-stop-two-sections", "C19", "prometheus/metrics.go", "\tclient.connCount--\n\tif client.connCount <= 0 {", "\tclient.connCount--\n\tc.mu.Unlock()\n\tc.mu.Lock()\n\tif client.connCount <= 0 {"),
 ("c19-mark-used-rlock", "C19", "service/cipher_list.go", "\tcl.mu.Lock()\n\tdefer cl.mu.Unlock()\n\tcl.list.MoveToFront(e)", "\tcl.mu.RLock()\n\tdefer cl.mu.RUnlock()\n\tcl.list.MoveToFront(e)"),
 # ---- C20
 ("c20-xl-after-lookup", "C20", "ipinfo/ipinfo.go", "\tif !ip.IsGlobalUnicast() {\n\t\tinfo.CountryCode = localLocation\n\t\treturn info, nil\n\t}\n\tinfo, err := ip2info.GetIPInfo(ip)", "\tinfo, err := ip2info.GetIPInfo(ip)\n\tif !ip.IsGlobalUnicast() {\n\t\tinfo.CountryCode = localLocation\n\t\treturn info, nil\n\t}"),
 ("c20-probe-label-client-addr", "C20", "prometheus/metrics.go", "cm.tcpServiceMetrics.addProbe(cm.localAddr.String(), status, drainResult, clientProxyBytes)", "cm.tcpServiceMetrics.addProbe(cm.clientAddr.String(), status, drainResult, clientProxyBytes)"),
 ("c20-zz-skipped", "C20", "ipinfo/ipinfo.go", "\tif info.CountryCode == \"\" {\n\t\tinfo.CountryCode = unknownLocation\n\t}\n", ""),
 ("c20-unparsable-as-xl", "C20", "ipinfo/ipinfo.go", "\tip := net.ParseIP(hostname)\n\tif ip == nil {\n\t\tinfo.CountryCode = errParseAddr", "\tip := net.ParseIP(hostname)\n\tif ip == nil {\n\t\tinfo.CountryCode = localLocation"),
 ("c20-key-label-from-ip", "C20", "prometheus/metrics.go", "\tc.tunnelTimePerKey.WithLabelValues(ipKey.accessKey).Add(tunnelTime.Seconds())", "\tc.tunnelTimePerKey.WithLabelValues(ipKey.ip.String()).Add(tunnelTime.Seconds())"),
]

ENV = dict(os.environ, GOFLAGS='-mod=mod', GOPROXY='off', GOSUMDB='off', GOTOOLCHAIN='local')

def run_one(m):
    name, prop, rel, old, new = m
    src = open(os.path.join('/repo', rel)).read()
    if src.count(old) != 1:
        return name, prop, 'SKIP', 'pattern occurs %d times' % src.count(old)
    if old == new:
        return name, prop, 'SKIP', 'no-op'
    d = tempfile.mkdtemp(prefix='verif-mut.', dir='/var/tmp')
    try:
        files = subprocess.run(['git', '-C', '/repo', 'ls-files'], capture_output=True, text=True).stdout.split()
        for f in files:
            if f.startswith('caddy/') or f.startswith('third_party/'):
                continue
            dst = os.path.join(d, 'repo', f)
            os.makedirs(os.path.dirname(dst), exist_ok=True)
            shutil.copy(os.path.join('/repo', f), dst)
        open(os.path.join(d, 'repo', rel), 'w').write(src.replace(old, new))
        b = subprocess.run(['go', 'build', './...'], cwd=os.path.join(d, 'repo'), env=ENV, capture_output=True, text=True)
        if b.returncode != 0:
            return name, prop, 'NOBUILD', (b.stdout + b.stderr)[-300:]
        p = subprocess.run([os.path.join(V, 'bin', 'govc'), 'check', prop, 'quick'], cwd=V, capture_output=True, text=True,
                           env=dict(ENV, VERIF_REPO=os.path.join(d, 'repo'), VERIF_OUT=os.path.join(d, 'out'), GOVC_NO_REPLAY='1'))
        if p.returncode == 2:
            # undecided without a replay: let the replay drivers try to exhibit a failing input on the real code
            p = subprocess.run([os.path.join(V, 'bin', 'govc'), 'check', prop, 'quick'], cwd=V, capture_output=True, text=True,
                               env=dict(ENV, VERIF_REPO=os.path.join(d, 'repo'), VERIF_OUT=os.path.join(d, 'out')))
        viol = [l.split('obligation=')[1].split()[0] for l in p.stdout.splitlines() if l.startswith('VIOLATION')]
        if p.returncode == 1:
            return name, prop, 'CAUGHT', ' '.join(viol[:2])
        und = [l for l in p.stdout.splitlines() if l.startswith('UNDECIDED')]
        return name, prop, 'MISSED' if p.returncode == 0 else 'UNDECIDED', (und[0][:200] if und else '')
    finally:
        shutil.rmtree(d, ignore_errors=True)

def main():
    args = [a for a in sys.argv[1:] if not a.startswith('--')]
    props = [a.split('=', 1)[1] for a in sys.argv[1:] if a.startswith('--prop=')]
    ms = [m for m in M if (not args or any(a in m[0] for a in args)) and (not props or m[1] in props)]
    res = []
    with concurrent.futures.ThreadPoolExecutor(max_workers=6) as ex:
        for r in ex.map(run_one, ms):
            print('%-34s %-4s %-9s %s' % r, flush=True)
            res.append(r)
    c = {}
    for r in res:
        c[r[2]] = c.get(r[2], 0) + 1
    print('summary:', c)
    json.dump([dict(name=r[0], property=r[1], verdict=r[2], detail=r[3]) for r in res], open(os.path.join(V, 'selftest', 'own', 'last_run.json'), 'w'), indent=1)

main()
