#!/usr/bin/env python3
"""Regenerates /verif/MANIFEST.json from tools/claims.json (claimed properties) and properties.jsonl."""
import json, os, subprocess
V = os.path.dirname(os.path.dirname(os.path.abspath(__file__)))
props = [json.loads(l) for l in open(os.path.join(V, 'properties.jsonl'))]
claims = json.load(open(os.path.join(V, 'tools', 'claims.json')))
hooks = subprocess.run(['git', '-C', '/repo', 'log', '--format=%h %s'], capture_output=True, text=True).stdout.splitlines()
hook_commits = [l.split()[0] for l in hooks if l.split(' ', 1)[1].startswith('verif:')]
m = {
 "version": 1,
 "setup_cmd": "./setup.sh",
 "hooks": {"guard": "verif", "enable": "-tags verif (adds comment-only contract files <pkg>/verif_contracts.go)",
           "baseline_off_cmd": "cd /repo && export GOFLAGS=-mod=mod GOPROXY=off GOSUMDB=off GOTOOLCHAIN=local && go test -json -vet=off -count=1 -timeout 25m ./...",
           "source_commits": hook_commits, "add_only": True},
 "engines": [{"name": "govc", "path": "engine", "serves_properties": sorted(claims['claimed'].keys()),
              "kind_free_text": "self-written VC generator over go/ssa (x/tools v0.29.0): path-wise symbolic execution of the real functions under contract (contracts in /repo/<pkg>/verif_contracts.go), loops cut at invariants, calls replaced by callee contracts; obligations discharged by z3 5.1.0 / z3 4.8.12 / cvc5 1.0; counterexamples replayed with go test -overlay"}],
 "checks": [], "not_applicable": [],
 "notes": "See DESIGN.md. ./check <id> [quick|thorough]; exit 0 held, 1 VIOLATION, 2 UNDECIDED (contracted function missing / untranslatable; never on the unchanged tree).",
}
for p in props:
    pid = p['id']
    if pid in claims['claimed']:
        c = claims['claimed'][pid]
        m['checks'].append({
            "property_id": pid,
            "quick_cmd": "./check %s quick" % pid,
            "thorough_cmd": "./check %s thorough" % pid,
            "evidence_file": "/verif/evidence/%s.json" % pid,
            "replay_cmd_template": "./check --replay {path}",
            "engine": "govc",
            "level_claimed": {"category": "proof", "text": c['text'], "design_ref": c.get('design_ref', 'DESIGN.md section 4, ' + pid)},
            "level_note": c['note'],
            "technique": c.get('technique', "contract-based deductive verification: VCs generated from go/ssa of the real functions, discharged by z3/cvc5"),
        })
    else:
        m['not_applicable'].append({"property_id": pid, "reason": claims['not_applicable'].get(pid, "not reached yet: contracts for this property are under construction (DESIGN.md section 6); no check is registered rather than an unfinished one")})
json.dump(m, open(os.path.join(V, 'MANIFEST.json'), 'w'), indent=1)
print("claimed:", sorted(claims['claimed'].keys()))
