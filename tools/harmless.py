#!/usr/bin/env python3
"""Property-preserving edits: each is applied to a scratch copy of /repo and EVERY registered check is run
on it; none may print VIOLATION (exit 1). UNDECIDED (exit 2) is tolerated only where noted (a contract
that names a renamed local cannot be evaluated) and reported. Usage: tools/harmless.py [name-substring...]"""
import json, os, shutil, subprocess, sys, tempfile, concurrent.futures
V = os.path.dirname(os.path.dirname(os.path.abspath(__file__)))
ENV = dict(os.environ, GOFLAGS='-mod=mod', GOPROXY='off', GOSUMDB='off', GOTOOLCHAIN='local')
H = [
 ("extra-log-line-in-add", "service/replay.go", "\thash := preHash(id, salt)\n", "\thash := preHash(id, salt)\n\t_ = len(id)\n"),
 ("rotate-one-later", "service/replay.go", "if len(c.active) >= c.capacity {", "if len(c.active) > c.capacity {"),
 ("rotate-one-earlier", "service/replay.go", "if len(c.active) >= c.capacity {", "if len(c.active) >= c.capacity-1 {"),
 ("extra-private-block", "net/private_net.go", "\t\t\"100.64.0.0/10\",\n", "\t\t\"100.64.0.0/10\",\n\t\t// RFC 2544 benchmarking\n\t\t\"198.18.0.0/15\",\n"),
 ("new-metric-field", "service/metrics/metrics.go", "\tProxyClient int64\n}", "\tProxyClient int64\n\tUnused      int64\n}"),
 ("reorder-independent-stmts-handle", "service/tcp.go", "\tconnDuration := time.Since(connStart)\n\tstatus := \"OK\"\n", "\tstatus := \"OK\"\n\tconnDuration := time.Since(connStart)\n"),
 ("extract-helper-validate", "service/udp.go", "\tpayload := textData[len(tgtAddr):]\n\treturn payload, tgtUDPAddr, nil\n}", "\treturn payloadAfter(textData, tgtAddr), tgtUDPAddr, nil\n}\n\nfunc payloadAfter(textData []byte, tgtAddr socks.Addr) []byte {\n\treturn textData[len(tgtAddr):]\n}"),
 ("debug-log-in-timedcopy", "service/udp.go", "\t\t\tsrcAddr := socks.ParseAddr(addrWithoutZone(raddr))\n", "\t\t\tsrcAddr := socks.ParseAddr(addrWithoutZone(raddr))\n\t\t\tdebugUDPAddr(l, \"Parsed source.\", clientAddr, slog.Int(\"len\", len(srcAddr)))\n"),
 ("larger-udp-buffer-check", "service/udp.go", "\t\t\tif len(srcAddr) > maxAddrLen {", "\t\t\tif srcAddr == nil || len(srcAddr) > maxAddrLen {"),
 ("longer-dns-timeout", "service/udp.go", "\t\ttimeout = 17 * time.Second\n", "\t\ttimeout = 20 * time.Second\n"),
 ("collect-key-first", "prometheus/metrics.go", "\tc.tunnelTimePerKey.Collect(ch)\n\tc.tunnelTimePerLocation.Collect(ch)\n}\n\n// Calculates", "\tc.tunnelTimePerLocation.Collect(ch)\n\tc.tunnelTimePerKey.Collect(ch)\n}\n\n// Calculates"),
 ("nil-check-in-getipinfo", "ipinfo/ipinfo.go", "\tif !ip.IsGlobalUnicast() {\n\t\tinfo.CountryCode = localLocation", "\tif len(ip) == 0 || !ip.IsGlobalUnicast() {\n\t\tinfo.CountryCode = localLocation"),
 ("stop-logs-more", "cmd/outline-ss-server/main.go", "\tslog.Info(\"Stopped all listeners for running config.\")\n", "\tslog.Info(\"Stopped all listeners for running config.\")\n\tslog.Debug(\"done\")\n"),
 ("listener-count-getter", "service/listeners.go", "// ListenerManager holds the state of shared listeners.", "func (m *multiStreamListener) handles() uint32 {\n\tm.mu.Lock()\n\tdefer m.mu.Unlock()\n\treturn m.count\n}\n\n// ListenerManager holds the state of shared listeners."),
 ("salt-generator-comment-and-var", "service/server_salt.go", "\tprefixLen := len(salt) - serverSaltMarkLen\n", "\tn := len(salt)\n\tprefixLen := n - serverSaltMarkLen\n"),
]
def props():
    return [c['property_id'] for c in json.load(open(os.path.join(V, 'MANIFEST.json')))['checks']]
# plus every diff in selftest/harmless/ (behaviour-preserving maintenance changes written by independent
# sub-agents that were given the property statements and asked to preserve all of them)
for f in sorted(os.listdir(os.path.join(V, 'selftest', 'harmless'))):
    if f.endswith('.diff'):
        H.append((f[:-5], None, None, os.path.join(V, 'selftest', 'harmless', f)))
def run_one(h):
    name, rel, old, new = h
    if rel is not None:
        src = open(os.path.join('/repo', rel)).read()
        if src.count(old) != 1:
            return name, 'SKIP', 'pattern occurs %d times' % src.count(old)
    d = tempfile.mkdtemp(prefix='verif-harmless.', dir='/var/tmp')
    try:
        for f in subprocess.run(['git', '-C', '/repo', 'ls-files'], capture_output=True, text=True).stdout.split():
            if f.startswith('caddy/') or f.startswith('third_party/'):
                continue
            dst = os.path.join(d, 'repo', f); os.makedirs(os.path.dirname(dst), exist_ok=True); shutil.copy(os.path.join('/repo', f), dst)
        if rel is not None:
            open(os.path.join(d, 'repo', rel), 'w').write(src.replace(old, new))
        else:
            a = subprocess.run(['git', 'apply', new], cwd=os.path.join(d, 'repo'), capture_output=True, text=True)
            if a.returncode != 0:
                return name, 'NOAPPLY', a.stderr[-200:]
        b = subprocess.run(['go', 'build', './...'], cwd=os.path.join(d, 'repo'), env=ENV, capture_output=True, text=True)
        if b.returncode != 0:
            return name, 'NOBUILD', (b.stdout + b.stderr)[-300:]
        t = subprocess.run(['go', 'test', '-vet=off', '-count=1', './service/...', './net/...', './prometheus/...', './cmd/...'], cwd=os.path.join(d, 'repo'), env=ENV, capture_output=True, text=True)
        tests = 'tests-pass' if t.returncode == 0 else 'TESTS-FAIL'
        bad, und = [], []
        for p in props():
            r = subprocess.run([os.path.join(V, 'bin', 'govc'), 'check', p, 'quick'], cwd=V, capture_output=True, text=True,
                               env=dict(ENV, VERIF_REPO=os.path.join(d, 'repo'), VERIF_OUT=os.path.join(d, 'out'), GOVC_NO_REPLAY='1'))
            if r.returncode == 1:
                # as the registered check does: let the replay drivers try the refutation on the real code
                r = subprocess.run([os.path.join(V, 'bin', 'govc'), 'check', p, 'quick'], cwd=V, capture_output=True, text=True,
                                   env=dict(ENV, VERIF_REPO=os.path.join(d, 'repo'), VERIF_OUT=os.path.join(d, 'out')))
            if r.returncode == 1:
                bad.append(p + ':' + ' '.join(l.split('obligation=')[1].split()[0] for l in r.stdout.splitlines() if l.startswith('VIOLATION'))[:200])
            elif r.returncode != 0:
                und.append(p + ':' + ([l for l in r.stdout.splitlines() if l.startswith('UNDECIDED')] or [(r.stdout + r.stderr).strip().splitlines()[-1] if (r.stdout + r.stderr).strip() else 'exit 2'])[0][:200])
        if bad:
            return name, 'FALSE-ALARM', tests + ' ' + ' | '.join(bad)
        if und:
            return name, 'undecided', tests + ' ' + ' | '.join(und)
        return name, 'quiet', tests
    finally:
        shutil.rmtree(d, ignore_errors=True)
def main():
    args = sys.argv[1:]
    hs = [h for h in H if not args or any(a in h[0] for a in args)]
    with concurrent.futures.ThreadPoolExecutor(max_workers=5) as ex:
        res = list(ex.map(run_one, hs))
    for r in res:
        print('%-36s %-12s %s' % r)
    print('summary:', {k: sum(1 for r in res if r[1] == k) for k in set(r[1] for r in res)})
main()
