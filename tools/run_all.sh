#!/bin/sh
# Runs the quick check of every property registered in MANIFEST.json, in parallel; prints one line each.
cd "$(dirname "$0")/.."
ids=$(python3 -c "import json;print(' '.join(c['property_id'] for c in json.load(open('MANIFEST.json'))['checks']))")
[ -n "$1" ] && ids="$*"
for id in $ids; do
  ( out=$(./check $id quick 2>&1); rc=$?; echo "exit=$rc $(echo "$out" | grep -E '^property=' | tail -1) $(echo "$out" | grep -E '^(VIOLATION|UNDECIDED)' | head -3 | tr '\n' ' ')" ) &
done
wait
