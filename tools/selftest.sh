#!/bin/sh
# Must-fail corpus: every patch in selftest/mutants (the seven repaired defects as canaries) and every
# seeded change in seeded/<id>/patch.diff is applied to a scratch copy of /repo (under /var/tmp, removed
# afterwards); the named check must exit 1 and report the expected obligation.
# Usage: tools/selftest.sh [property-id]      (restrict to the mutants of one property)
cd "$(dirname "$0")/.."
only="$1"
fail=0; n=0
scratch=$(mktemp -d /var/tmp/verif-selftest.XXXXXX)
trap 'rm -rf "$scratch"' EXIT
run_one() { # name patch property expected-substring
  name=$1; patch=$2; prop=$3; expect=$4
  [ -n "$only" ] && [ "$only" != "$prop" ] && return
  n=$((n+1))
  rm -rf "$scratch/repo"; mkdir -p "$scratch/repo"
  (cd /repo && git ls-files -z | xargs -0 cp --parents -t "$scratch/repo") 2>/dev/null
  cp /repo/go.sum "$scratch/repo/" 2>/dev/null
  if ! (cd "$scratch/repo" && git init -q . 2>/dev/null; git apply "$patch" 2>/dev/null); then echo "SELFTEST $name: patch does not apply"; fail=1; return; fi
  out=$(VERIF_REPO="$scratch/repo" VERIF_OUT="$scratch/out" bin/govc check "$prop" quick 2>&1); rc=$?
  if [ $rc -eq 1 ] && echo "$out" | grep -F "VIOLATION" | grep -qF -- "$expect"; then echo "SELFTEST $name: ok ($prop fails at $expect)";
  else echo "SELFTEST $name: NOT DETECTED as expected (exit $rc, wanted VIOLATION with '$expect' for $prop)"; echo "$out" | grep -E '^(VIOLATION|UNDECIDED)' | head -3; fail=1; fi
}
python3 - <<'PY' > "$scratch/list.txt"
import json,os
e=json.load(open('selftest/expected.json'))
for k,v in sorted(e.items()):
    print('\t'.join([k, os.path.abspath('selftest/mutants/'+k), v['property'], v['obligation']]))
for d in sorted(os.listdir('seeded')):
    m=os.path.join('seeded',d,'meta.json')
    if os.path.exists(m):
        print('\t'.join(['seeded-'+d, os.path.abspath(os.path.join('seeded',d,'patch.diff')), d[:3], '']))
PY
while IFS="$(printf '\t')" read -r name patch prop expect; do run_one "$name" "$patch" "$prop" "$expect"; done < "$scratch/list.txt"
echo "selftest: $n mutants, failures=$fail"
exit $fail
