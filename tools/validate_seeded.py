#!/usr/bin/env python3
"""Validates the seeded property-breaking changes produced by independent sub-agents against the
current /repo HEAD in a scratch worktree (removed afterwards) and stores the confirmed ones in
/verif/seeded/<id>/ (patch.diff, demonstration, meta.json)."""
import json, os, shutil, subprocess, sys, glob

ENV = dict(os.environ, GOFLAGS='-mod=mod', GOPROXY='off', GOSUMDB='off', GOTOOLCHAIN='local')
SEED = '/tmp/seed'
ROUND = ''   # '' = first round (fixed CFG table); '2' = second round (/tmp/seed2, demos discovered), stored as <id>b
CFG = {
 'C01': ('service', 'TestSeededC01', ['./service/']),
 'C02': ('service', 'TestSeeded', ['./service/']),
 'C03': ('service', 'TestSeeded', ['./service/']),
 'C04': ('service', 'TestSeededC04', ['./service/']),
 'C05': ('service', 'TestSeededC05', ['./service/']),
 'C06': ('service', 'TestSeededC06', ['./service/']),
 'C07': ('cmd/outline-ss-server', 'TestSeededReplayHistorySurvivesReload', ['./cmd/outline-ss-server/']),
 'C08': ('service', 'TestSeededC08', ['./service/']),
 'C09': ('cmd/outline-ss-server', 'TestSeededC09', ['./cmd/outline-ss-server/']),
 'C10': ('cmd/outline-ss-server', 'TestSeededReloadReleasesRemovedAddress', ['./cmd/outline-ss-server/']),
 'C11': ('service', 'TestSeededC11', ['./service/']),
 'C12': ('service', 'TestSeededC12', ['./service/']),
 'C13': ('service', 'TestSeededC13', ['./service/']),
 'C14': ('service', 'TestSeeded', ['./service/']),
 'C15': ('service', 'TestSeededC15', ['./service/']),
 'C16': ('service', 'TestSeeded', ['./service/']),
 'C17': ('prometheus', 'TestSeededC17', ['./prometheus/']),
 'C18': ('service', 'TestSeededC18', ['./service/']),
 'C19': ('prometheus', 'TestSeededC19', ['./prometheus/']),
 'C20': (None, 'TestSeededC20', ['./ipinfo/', './prometheus/']),
}

def run(cmd, cwd, timeout=600):
    p = subprocess.run(cmd, cwd=cwd, env=ENV, capture_output=True, text=True, timeout=timeout)
    return p.returncode, (p.stdout + p.stderr)

def discover(pid):
    """round >= 2: the agent's worktree holds the demo files as untracked *_test.go files; demo.md holds the command"""
    wt0 = os.path.join(SEED, 'wt-' + pid)
    st = subprocess.run(['git', '-C', wt0, 'status', '--porcelain', '-uall'], capture_output=True, text=True).stdout
    rels = [l[3:].strip() for l in st.splitlines() if l.startswith('??') and l.strip().endswith('_test.go')]
    md = ''
    for f in ('demo.md', 'notes.md'):
        try: md += open(os.path.join(SEED, 'out-' + pid, f)).read() + '\n'
        except Exception: pass
    import re
    m = re.search(r'go test[^\n`]*-run[ =]+(\S+)([^\n`]*)', md)
    runpat = m.group(1).strip('\'"') if m else 'TestSeeded'
    pkgs = sorted({'./' + os.path.dirname(r) + '/' for r in rels})
    return rels, runpat, pkgs

def validate(pid):
    out = os.path.join(SEED, 'out-' + pid)
    wt = '/var/tmp/sw-' + pid
    subprocess.run(['git', '-C', '/repo', 'worktree', 'remove', '--force', wt], capture_output=True)
    shutil.rmtree(wt, ignore_errors=True)
    subprocess.run(['git', '-C', '/repo', 'worktree', 'add', '-q', '--detach', wt, 'HEAD'], check=True)
    meta = {'property': pid, 'ran': []}
    try:
        demos = []
        if ROUND:
            rels, runpat, pkgs = discover(pid)
            for r in rels:
                os.makedirs(os.path.dirname(os.path.join(wt, r)), exist_ok=True)
                shutil.copy(os.path.join(SEED, 'wt-' + pid, r), os.path.join(wt, r)); demos.append((os.path.join(SEED, 'wt-' + pid, r), r))
            pkgdir = None
        else:
            pkgdir, runpat, pkgs = CFG[pid]
        if ROUND:
            pass
        elif pid == 'C20':
            for sub in ('ipinfo', 'prometheus'):
                for f in glob.glob(os.path.join(out, sub, '*_test.go')):
                    dst = os.path.join(wt, sub, os.path.basename(f)); shutil.copy(f, dst); demos.append((f, os.path.join(sub, os.path.basename(f))))
        else:
            for f in glob.glob(os.path.join(out, '*_test.go')):
                dst = os.path.join(wt, pkgdir, os.path.basename(f)); shutil.copy(f, dst); demos.append((f, os.path.join(pkgdir, os.path.basename(f))))
        demo_cmd = ['go', 'test', '-vet=off', '-count=1', '-timeout', '300s', '-run', runpat] + pkgs
        rc0, o0 = run(demo_cmd, wt)
        meta['ran'].append({'cmd': ' '.join(demo_cmd), 'when': 'without the change (current /repo HEAD)', 'exit': rc0})
        meta['demo_passes_without_change'] = rc0 == 0
        rc, o = run(['git', 'apply', os.path.join(out, 'patch.diff')], wt)
        how = 'git apply'
        if rc != 0:
            rc, o = run(['git', 'apply', '--3way', os.path.join(out, 'patch.diff')], wt)
            how = 'git apply --3way'
        meta['patch_applies'] = rc == 0
        meta['apply_how'] = how
        if rc != 0:
            meta['apply_error'] = o[-2000:]
            return meta, None, demos
        rcs, os_ = run(['go', 'test', '-vet=off', '-count=1', '-timeout', '600s', '-skip', 'TestSeeded', './...'], wt, timeout=900)
        fails = [l for l in os_.splitlines() if l.startswith('--- FAIL')]
        known = {'TestIPInfoMap', 'TestIPInfoMapASNOnly', 'TestIPInfoMapCountryOnly', 'TestTestDataExists'}
        extra = [l for l in fails if l.split()[2] not in known]
        buildfail = '[build failed]' in os_ or 'cannot' in os_ and 'FAIL' in os_ and not fails
        meta['ran'].append({'cmd': "go test -vet=off -count=1 -skip TestSeeded ./...", 'when': 'with the change', 'unexpected_failures': extra})
        meta['suite_passes_with_change'] = not extra and not buildfail
        rc1, o1 = run(demo_cmd, wt)
        meta['ran'].append({'cmd': ' '.join(demo_cmd), 'when': 'with the change', 'exit': rc1, 'tail': o1[-1500:]})
        meta['demo_fails_with_change'] = rc1 != 0
        # regenerate the patch against the current HEAD (source files only)
        rcd, diff = run(['git', 'diff', 'HEAD', '--', '.', ':(exclude)*_test.go'], wt)
        return meta, diff, demos
    finally:
        subprocess.run(['git', '-C', '/repo', 'worktree', 'remove', '--force', wt], capture_output=True)
        shutil.rmtree(wt, ignore_errors=True)

def main():
    global SEED, ROUND
    args = sys.argv[1:]
    if args and args[0].startswith('--round='):
        ROUND = args[0].split('=')[1]; SEED = '/tmp/seed' + ROUND; args = args[1:]
    ids = args or sorted(CFG)
    for pid in ids:
        try:
            meta, diff, demos = validate(pid)
        except Exception as ex:
            print(pid, 'ERROR', ex); continue
        ok = meta.get('demo_passes_without_change') and meta.get('patch_applies') and meta.get('suite_passes_with_change') and meta.get('demo_fails_with_change')
        print(pid, 'CONFIRMED' if ok else 'NOT-CONFIRMED', {k: v for k, v in meta.items() if k not in ('ran',)})
        d = os.path.join('/verif/seeded', pid + ({'': '', '2': 'b', '3': 'c', '4': 'd', '5': 'e', '6': 'f'}[ROUND]))
        if ok:
            os.makedirs(d, exist_ok=True)
            open(os.path.join(d, 'patch.diff'), 'w').write(diff)
            for src, rel in demos:
                shutil.copy(src, os.path.join(d, os.path.basename(src)))
            notes = ''
            try: notes = open(os.path.join(SEED, 'out-' + pid, 'notes.md')).read()
            except Exception: pass
            meta['demo_files'] = [rel for _, rel in demos]
            meta['needs_to_manifest'] = notes[:3000]
            meta['source'] = 'independent sub-agent given only the property text and a scratch worktree' + (' (round %s: also told the one-line description of the round-1 change, to produce a different one)' % ROUND if ROUND else '')
            json.dump(meta, open(os.path.join(d, 'meta.json'), 'w'), indent=1)
        else:
            os.makedirs('/var/tmp/seed-failed', exist_ok=True)
            json.dump(meta, open('/var/tmp/seed-failed/%s%s.json' % (pid, ROUND), 'w'), indent=1)

main()
