#!/bin/sh
# Applies each confirmed seeded change in /verif/seeded/<id>/patch.diff to /repo, runs the check of the
# property it breaks (and optionally other checks given as extra args), and undoes the change.
# Usage: tools/run_seeded.sh [ids...]      (default: all seeded ids)
cd "$(dirname "$0")/.."
ids="$*"
[ -z "$ids" ] && ids=$(ls seeded)
for id in $ids; do
  p=seeded/$id/patch.diff
  [ -f "$p" ] || continue
  if ! git -C /repo apply --check "$PWD/$p" 2>/dev/null; then echo "$id: PATCH DOES NOT APPLY"; continue; fi
  git -C /repo apply "$PWD/$p"
  prop=$(echo $id | cut -c1-3)
  out=$(./check $prop quick 2>&1); rc=$?
  git -C /repo checkout -- . 
  if [ $rc -eq 1 ]; then
    echo "$id: CAUGHT   $(echo "$out" | grep -c '^VIOLATION') violation(s): $(echo "$out" | grep '^VIOLATION' | sed -e 's/.*obligation=//' | head -3 | tr '\n' ' ')"
  elif [ $rc -eq 2 ]; then
    echo "$id: UNDECIDED $(echo "$out" | grep '^UNDECIDED' | head -2 | tr '\n' ' ')"
  else
    echo "$id: MISSED   (exit $rc) $(echo "$out" | tail -1)"
  fi
done
