#!/bin/sh
# tools/scratch.sh <dir> [patch.diff]: makes a scratch copy of /repo's tracked files (without ./caddy) in <dir>/repo
# (under /var/tmp) and applies the patch; run checks on it with VERIF_REPO=<dir>/repo VERIF_OUT=<dir>/out.
d=$1; rm -rf "$d"; mkdir -p "$d/repo"
(cd /repo && git ls-files | grep -v '^caddy/' | while read f; do [ -f "$f" ] && { mkdir -p "$d/repo/$(dirname "$f")"; cp "$f" "$d/repo/$f"; }; done)
[ -n "$2" ] && (cd "$d/repo" && git apply "$2")
echo "$d/repo"
