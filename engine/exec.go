package main

import (
	"fmt"
	"go/constant"
	"go/token"
	"go/types"
	"strings"

	"golang.org/x/tools/go/ssa"
)

// retPath is one way a function activation can end normally.
type retPath struct {
	s    *State
	vals []Value
}

const maxPathsDefault = 6000

// pushFrame creates the activation of fn on state s.
func (c *Ctx) pushFrame(s *State, fn *ssa.Function, args []Value, binds []Value) *frame {
	fr := &frame{fn: fn, vals: map[ssa.Value]Value{}, locals: map[string]Value{}, localIsAddr: map[string]bool{},
		openLoops: map[*ssa.BasicBlock]bool{}, rangeVisited: map[*ssa.Range]Term{}, rangeMap: map[*ssa.Range]Value{},
		loopTraceStart: map[*ssa.BasicBlock]int{}}
	for i, p := range fn.Params {
		if i < len(args) {
			fr.vals[p] = args[i]
			fr.locals[p.Name()] = args[i]
		}
	}
	for i, fv := range fn.FreeVars {
		if i < len(binds) {
			fr.vals[fv] = binds[i]
			fr.locals[fv.Name()] = binds[i]
			fr.localIsAddr[fv.Name()] = true
		}
	}
	if fc := c.eng.contracts.funcs[qualFnName(fn)]; fc != nil && !fc.Assumed && len(fc.Params) > 0 && len(fc.Params) == len(fn.Params) {
		fr.alias = map[string]string{}
		for i, pn := range fc.Params {
			if i < len(fn.Params) && pn != fn.Params[i].Name() {
				fr.alias[pn] = fn.Params[i].Name()
			}
		}
	}
	if la := c.eng.localAlias[qualFnName(fn)]; len(la) > 0 {
		if fr.alias == nil {
			fr.alias = map[string]string{}
		}
		for o, n := range la {
			if _, has := fr.alias[o]; !has {
				fr.alias[o] = n
			}
		}
	}
	fr.entry = s.snapshot()
	fr.entryClock = s.clock
	s.frames = append(s.frames, fr)
	return fr
}

// runFunction symbolically executes fn with the given parameter values on
// state s (a new frame is pushed); it returns the normal-return paths.
func (c *Ctx) runFunction(s *State, fn *ssa.Function, args []Value, binds []Value) []retPath {
	if len(fn.Blocks) == 0 {
		c.unsupported("no body for " + fn.String())
		return nil
	}
	c.pushFrame(s, fn, args, binds)
	var out []retPath
	c.execBlock(s, fn.Blocks[0], nil, &out)
	return out
}

// execBlock runs block b (entered from pred) and everything after it on this path.
func (c *Ctx) execBlock(s *State, b *ssa.BasicBlock, pred *ssa.BasicBlock, out *[]retPath) {
	for {
		if s.dead {
			return
		}
		c.paths++
		if c.paths > c.maxPaths*40 {
			c.unsupported(fmt.Sprintf("path budget exceeded in %s", c.key))
			return
		}
		fr := s.top()
		li := c.eng.loopInfo(fr.fn)
		if c.scoutBody != nil && len(s.frames) == c.scoutDepth && !c.scoutBody[b] {
			return // effects discovery: left the loop body
		}
		// loop header handling
		if k := c.unrollBound(fr.fn, b, li); li.isHeader[b] && k > 0 {
			if fr.unrollCount == nil {
				fr.unrollCount = map[*ssa.BasicBlock]int{}
			}
			fr.unrollCount[b]++
			if fr.unrollCount[b] > k+1 {
				name := fmt.Sprintf("%s/loop%d:unwind<=%d", fnKey(fr.fn), c.eng.loopLabel(fr.fn, li.ordinal[b]), k)
				c.oblige(s, "unwind", name, False, "", "unwinding assertion: the loop iterates at most the stated number of times", c.props)
				return
			}
			if pred != nil {
				c.evalPhis(s, b, pred)
			}
		} else if li.isHeader[b] && c.resumeHeader == b {
			c.resumeHeader = nil
			pred = nil
		} else if li.isHeader[b] {
			isBack := pred != nil && li.backEdge[[2]*ssa.BasicBlock{pred, b}]
			if isBack && fr.openLoops[b] {
				// evaluate phis for the back edge, assert invariant, end path
				c.evalPhis(s, b, pred)
				c.checkLoopInv(s, b, "preserved")
				c.checkLoopTraces(s, b)
				return
			}
			// entry into the loop
			c.evalPhis(s, b, pred)
			c.checkLoopInv(s, b, "entry")
			c.havocLoop(s, b)
			c.assumeLoopInv(s, b)
			fr.openLoops[b] = true
			fr.loopTraceStart[b] = len(s.trace)
			pred = nil // phis are done
		} else if pred != nil {
			c.evalPhis(s, b, pred)
		}
		var next *ssa.BasicBlock
		for _, in := range b.Instrs {
			if s.dead {
				return
			}
			switch x := in.(type) {
			case *ssa.Phi:
				continue
			case *ssa.If:
				cond := c.val(s, x.Cond).(Sc).T
				tb, fb := b.Succs[0], b.Succs[1]
				if cond.S == "true" {
					next = tb
				} else if cond.S == "false" {
					next = fb
				} else {
					s2 := s.clone()
					s2.assume(Not(cond))
					s.assume(cond)
					c.execBlock(s2, fb, b, out)
					next = tb
				}
			case *ssa.Jump:
				next = b.Succs[0]
			case *ssa.Return:
				var vals []Value
				for _, r := range x.Results {
					vals = append(vals, c.val(s, r))
				}
				*out = append(*out, retPath{s, vals})
				return
			case *ssa.Panic:
				c.execPanic(s, x)
				return
			default:
				more := c.execInstr(s, in, out)
				// instructions that fork return extra states to continue from the next instruction
				if len(more) > 0 {
					// continue each forked state from the instruction after `in`
					for _, ms := range more {
						c.continueAfter(ms, b, in, out)
					}
				}
			}
		}
		if next == nil {
			return
		}
		pred, b = b, next
	}
}

func (c *Ctx) unrollBound(fn *ssa.Function, b *ssa.BasicBlock, li *loopInfoT) int {
	if !li.isHeader[b] {
		return 0
	}
	fc := c.eng.contracts.funcs[qualFnName(fn)]
	if fc == nil || fc.Unroll == nil {
		return 0
	}
	return fc.Unroll[li.ordinal[b]]
}

// continueAfter resumes execution of block b right after instruction `after` on state s.
func (c *Ctx) continueAfter(s *State, b *ssa.BasicBlock, after ssa.Instruction, out *[]retPath) {
	started := false
	var next *ssa.BasicBlock
	for _, in := range b.Instrs {
		if !started {
			if in == after {
				started = true
			}
			continue
		}
		if s.dead {
			return
		}
		switch x := in.(type) {
		case *ssa.If:
			cond := c.val(s, x.Cond).(Sc).T
			tb, fb := b.Succs[0], b.Succs[1]
			if cond.S == "true" {
				next = tb
			} else if cond.S == "false" {
				next = fb
			} else {
				// (branching on the result of an un-contracted call is not by itself a reason to distrust a
				// refutation: the rule usually fails whichever way the branch went; a goal that *mentions* such
				// a result is, see oblige)
				s2 := s.clone()
				s2.assume(Not(cond))
				s.assume(cond)
				c.execBlock(s2, fb, b, out)
				next = tb
			}
		case *ssa.Jump:
			next = b.Succs[0]
		case *ssa.Return:
			var vals []Value
			for _, r := range x.Results {
				vals = append(vals, c.val(s, r))
			}
			*out = append(*out, retPath{s, vals})
			return
		case *ssa.Panic:
			c.execPanic(s, x)
			return
		default:
			more := c.execInstr(s, in, out)
			for _, ms := range more {
				c.continueAfter(ms, b, in, out)
			}
		}
	}
	if next != nil {
		c.execBlock(s, next, b, out)
	}
}

func (c *Ctx) evalPhis(s *State, b *ssa.BasicBlock, pred *ssa.BasicBlock) {
	if pred == nil {
		return
	}
	idx := -1
	for i, p := range b.Preds {
		if p == pred {
			idx = i
			break
		}
	}
	if idx < 0 {
		return
	}
	fr := s.top()
	var phis []*ssa.Phi
	var vals []Value
	for _, in := range b.Instrs {
		phi, ok := in.(*ssa.Phi)
		if !ok {
			break
		}
		phis = append(phis, phi)
		vals = append(vals, c.val(s, phi.Edges[idx]))
	}
	for i, phi := range phis {
		fr.vals[phi] = vals[i]
		if phi.Comment != "" {
			fr.locals[phi.Comment] = vals[i]
			delete(fr.localIsAddr, phi.Comment)
		}
	}
}

func (c *Ctx) execPanic(s *State, x *ssa.Panic) {
	pos := posOf(c.eng.prog, x)
	fc := c.eng.contracts.funcs[fnKey(x.Parent())]
	if fc != nil && fc.mayPanic {
		s.dead = true
		return
	}
	name := fmt.Sprintf("%s/safe:panic#%d", fnKey(x.Parent()), c.ordinal("panic", x))
	c.oblige(s, "safe", name, False, pos, "explicit panic must be unreachable", []string{"C18"})
	s.dead = true
}

// val evaluates an SSA value on the current frame.
func (c *Ctx) val(s *State, v ssa.Value) Value {
	fr := s.top()
	if x, ok := fr.vals[v]; ok {
		return x
	}
	switch x := v.(type) {
	case *ssa.Const:
		return c.constVal(s, x)
	case *ssa.Global:
		return Sc{T: c.globalRef(x)}
	case *ssa.Function:
		return c.funcValue(s, x, nil)
	case *ssa.Builtin:
		return Sc{T: IntLit(0)}
	}
	c.unsupported(fmt.Sprintf("value %s (%T) not defined on this path in %s", v.Name(), v, fr.fn.Name()))
	nv := c.freshValue(s, v.Type(), "undef")
	fr.vals[v] = nv
	return nv
}

func (c *Ctx) globalRef(g *ssa.Global) Term {
	name := "global|" + g.Pkg.Pkg.Path() + "." + g.Name()
	t := c.d.Const(name, SInt)
	id := c.eng.globalID(name)
	c.d.Fun("birth", []Sort{SInt}, SInt)
	c.d.Fun("gid", []Sort{SInt}, SInt)
	c.d.Axiom(fmt.Sprintf("(and (not (= %s 0)) (<= (birth %s) 0) (= (gid %s) %d))", t.S, t.S, t.S, id))
	return t
}

// funcValue returns the value of a function constant / closure and remembers its target.
func (c *Ctx) funcValue(s *State, fn *ssa.Function, binds []Value) Value {
	if binds == nil {
		name := "func|" + fn.String()
		t := c.d.Const(name, SInt)
		id := c.eng.globalID(name)
		c.d.Fun("gid", []Sort{SInt}, SInt)
		c.d.Fun("birth", []Sort{SInt}, SInt)
		c.d.Axiom(fmt.Sprintf("(and (not (= %s 0)) (<= (birth %s) 0) (= (gid %s) %d))", t.S, t.S, t.S, id))
		c.eng.closures[t.S] = &closureInfo{fn: fn}
		return Sc{T: t}
	}
	r := c.newRef(s, "closure|"+fn.Name())
	c.eng.closures[r.S] = &closureInfo{fn: fn, binds: binds}
	// record the target in the heap so that it survives being stored / loaded
	h := c.getHeap(s, "ClosureFn", ArrSort(SInt, SInt))
	c.setHeapAt(s, "ClosureFn", Store(h, r, IntLit(int64(c.eng.fnID(fn)))), r)
	for i, b := range binds {
		if sc, ok := b.(Sc); ok {
			name := fmt.Sprintf("Bind|%s#%d", fnKey(fn), i)
			hb := c.getHeap(s, name, ArrSort(SInt, sc.T.Sort))
			c.setHeapAt(s, name, Store(hb, r, sc.T), r)
		}
	}
	return Sc{T: r}
}

func (c *Ctx) constVal(s *State, k *ssa.Const) Value {
	t := k.Type()
	if k.Value == nil {
		// zero value / nil
		return c.zeroValue(t)
	}
	sort := scalarSort(t)
	switch k.Value.Kind() {
	case constant.Bool:
		return Sc{T: BoolLit(constant.BoolVal(k.Value))}
	case constant.String:
		return Sc{T: strLit(c.d, constant.StringVal(k.Value))}
	case constant.Int:
		if sort.IsBV() {
			u, _ := constant.Uint64Val(k.Value)
			return Sc{T: BVLit(u, sort.BVWidth())}
		}
		if sort == SFlt {
			return Sc{T: c.d.Const("flt!"+k.Value.ExactString(), SFlt)}
		}
		return Sc{T: BigIntLit(k.Value.ExactString())}
	case constant.Float:
		if sort == SInt {
			if i, ok := constant.Int64Val(constant.ToInt(k.Value)); ok {
				return Sc{T: IntLit(i)}
			}
		}
		return Sc{T: c.d.Const("flt!"+k.Value.ExactString(), SFlt)}
	}
	c.unsupported("constant " + k.String())
	return Sc{T: c.freshConst("const", SInt)}
}

func (c *Ctx) setVal(s *State, v ssa.Value, x Value) {
	s.top().vals[v] = x
}

// nilCheck emits the obligation that a pointer is non-nil before a dereference.
func (c *Ctx) nilCheck(s *State, in ssa.Instruction, p Term, what string) {
	if _, ok := isIntLit(p); ok && p.S != "0" {
		return
	}
	if strings.HasPrefix(p.S, "global|") || strings.HasPrefix(p.S, "|global|") {
		return
	}
	name := fmt.Sprintf("%s/safe:nil@%s#%d", fnKey(in.Parent()), otag(in), c.ordinal("nil", in))
	c.oblige(s, "safe", name, Neq(p, IntLit(0)), posOf(c.eng.prog, in), "nil dereference: "+what, []string{"C18"})
	s.assume(Neq(p, IntLit(0)))
}

// execInstr executes a non-control instruction. It may return extra forked states
// that must continue after the same instruction.
func (c *Ctx) execInstr(s *State, in ssa.Instruction, out *[]retPath) []*State {
	switch x := in.(type) {
	case *ssa.DebugRef:
		if id, ok := x.Expr.(interface{ String() string }); ok {
			_ = id
		}
		if obj := x.Object(); obj != nil {
			// only local variables and parameters (not struct fields or package-level objects)
			if v, ok := obj.(*types.Var); !ok || v.IsField() || (obj.Pkg() != nil && obj.Parent() == obj.Pkg().Scope()) {
				break
			}
			fr := s.top()
			if x.IsAddr {
				fr.locals[obj.Name()] = c.val(s, x.X)
				fr.localIsAddr[obj.Name()] = true
			} else if !fr.localIsAddr[obj.Name()] {
				// (a variable that lives in memory keeps being read through its address)
				fr.locals[obj.Name()] = c.val(s, x.X)
			}
		}
	case *ssa.Alloc:
		r := c.newRef(s, "alloc|"+x.Comment)
		et := x.Type().(*types.Pointer).Elem()
		c.storeAt(s, r, et, c.zeroValue(et))
		c.setVal(s, x, Sc{T: r})
		if x.Comment != "" {
			fr := s.top()
			if _, exists := fr.locals[x.Comment]; !exists {
				fr.locals[x.Comment] = Sc{T: r}
				fr.localIsAddr[x.Comment] = true
			}
		}
	case *ssa.UnOp:
		c.execUnOp(s, x)
	case *ssa.BinOp:
		c.setVal(s, x, c.execBinOp(s, x))
	case *ssa.Store:
		c.execStore(s, x)
	case *ssa.FieldAddr:
		base := c.val(s, x.X).(Sc)
		c.nilCheck(s, x, base.T, "field access "+x.String())
		pt := x.X.Type().Underlying().(*types.Pointer).Elem()
		st := pt.Underlying().(*types.Struct)
		ft := st.Field(x.Field).Type()
		c.guardCheck(s, x, pt, x.Field, base.T)
		_, isStruct := isStructType(ft)
		_, isArr := ft.Underlying().(*types.Array)
		if isStruct || isArr || c.fieldEscapes(pt, x.Field) {
			c.setVal(s, x, Sc{T: c.subRef(s, base.T, pt, x.Field)})
		} else if _, abs := abstractSort(ft); abs {
			// address of a mutex / once / time value: identify by owner and field
			c.setVal(s, x, Sc{T: c.subRef(s, base.T, pt, x.Field), Prov: &Prov{Kind: 1, Base: base.T, Struct: pt, Field: x.Field}})
		} else {
			c.setVal(s, x, Sc{T: c.freshAddr(base.T, pt, x.Field), Prov: &Prov{Kind: 1, Base: base.T, Struct: pt, Field: x.Field}})
		}
	case *ssa.Field:
		sv, ok := c.val(s, x.X).(St)
		if !ok {
			c.unsupported("Field on non-struct value")
			c.setVal(s, x, c.freshValue(s, x.Type(), "field"))
			break
		}
		c.setVal(s, x, sv.F[x.Field])
	case *ssa.IndexAddr:
		c.execIndexAddr(s, x)
	case *ssa.Index:
		c.execIndex(s, x)
	case *ssa.Slice:
		c.execSlice(s, x)
	case *ssa.Lookup:
		c.execLookup(s, x)
	case *ssa.MapUpdate:
		c.execMapUpdate(s, x)
	case *ssa.MakeMap:
		r := c.newRef(s, "map")
		mt := x.Type().Underlying().(*types.Map)
		c.initMap(s, r, mt)
		c.setVal(s, x, Sc{T: r})
	case *ssa.MakeSlice:
		ln := c.val(s, x.Len).(Sc).T
		cp := c.val(s, x.Cap).(Sc).T
		name := fmt.Sprintf("%s/safe:make#%d", fnKey(x.Parent()), c.ordinal("make", x))
		c.oblige(s, "safe", name, And(Ge(ln, IntLit(0)), Le(ln, cp)), posOf(c.eng.prog, x), "makeslice: len out of range", []string{"C18"})
		s.assume(And(Ge(ln, IntLit(0)), Le(ln, cp)))
		r := c.newRef(s, "slicearr")
		et := x.Type().Underlying().(*types.Slice).Elem()
		c.zeroElems(s, r, et)
		c.setVal(s, x, Sl{Arr: r, Off: IntLit(0), Len: ln, Cap: cp})
	case *ssa.MakeChan:
		r := c.newRef(s, "chan")
		h := c.getHeap(s, "ChanClosed", ArrSort(SInt, SBool))
		c.setHeapAt(s, "ChanClosed", Store(h, r, False), r)
		c.setVal(s, x, Sc{T: r})
		if c.scout == 0 {
			// event: makechan(capacity) -> channel   (a rendezvous protocol depends on the capacity)
			s.seq++
			s.trace = append(s.trace, Event{Name: "makechan", Args: []Value{c.val(s, x.Size)}, ArgT: []types.Type{types.Typ[types.Int]}, Res: Sc{T: r}, ResT: x.Type(), PC: len(s.pc), Pos: posOf(c.eng.prog, x), Seq: s.seq})
		}
	case *ssa.MakeClosure:
		var binds []Value
		for _, b := range x.Bindings {
			binds = append(binds, c.val(s, b))
		}
		c.setVal(s, x, c.funcValue(s, x.Fn.(*ssa.Function), binds))
	case *ssa.MakeInterface:
		c.setVal(s, x, c.makeInterface(s, c.val(s, x.X), x.X.Type()))
	case *ssa.ChangeInterface:
		c.setVal(s, x, c.val(s, x.X))
	case *ssa.ChangeType:
		c.setVal(s, x, c.val(s, x.X))
	case *ssa.Convert:
		c.execConvert(s, x)
	case *ssa.TypeAssert:
		c.execTypeAssert(s, x)
	case *ssa.Extract:
		tu, ok := c.val(s, x.Tuple).(Tu)
		if !ok || x.Index >= len(tu.E) {
			c.unsupported("extract from non-tuple")
			c.setVal(s, x, c.freshValue(s, x.Type(), "extract"))
			break
		}
		c.setVal(s, x, tu.E[x.Index])
	case *ssa.Call:
		return c.execCall(s, x, &x.Call, x, out)
	case *ssa.Defer:
		c.execDefer(s, x)
	case *ssa.RunDefers:
		return c.execRunDefers(s, x, out)
	case *ssa.Go:
		c.execGo(s, x)
	case *ssa.Range:
		c.execRange(s, x)
	case *ssa.Next:
		c.execNext(s, x)
	case *ssa.Send:
		c.execSend(s, x)
	case *ssa.Select:
		return c.execSelect(s, x)
	default:
		c.unsupported(fmt.Sprintf("instruction %T in %s", in, fnKey(in.Parent())))
		if v, ok := in.(ssa.Value); ok {
			c.setVal(s, v, c.freshValue(s, v.Type(), "unsup"))
		}
	}
	return nil
}

func (c *Ctx) freshAddr(base Term, structT types.Type, field int) Term {
	name := "fa|" + namedOf(structT) + "." + structT.Underlying().(*types.Struct).Field(field).Name()
	return c.d.Apply(name, []Term{base}, SInt)
}

func (c *Ctx) zeroElems(s *State, arr Term, et types.Type) {
	if _, ok := isStructType(et); ok {
		return // struct elements: not zero-initialised in the model (fields unconstrained) -- sound for safety, imprecise
	}
	for _, cp := range compsOf(et) {
		name := "Elem|" + typeKey(et) + cp.Suffix
		h := c.getHeap(s, name, ArrSort(SInt, ArrSort(SInt, cp.Sort)))
		z := zeroTerm(cp.Sort, c.d)
		c.setHeapAt(s, name, Store(h, arr, Term{fmt.Sprintf("((as const %s) %s)", ArrSort(SInt, cp.Sort), z.S), ArrSort(SInt, cp.Sort)}), arr)
	}
}

func (c *Ctx) makeInterface(s *State, v Value, t types.Type) Value {
	if _, ok := t.Underlying().(*types.Interface); ok {
		return v
	}
	code := IntLit(int64(typeCode(t)))
	if sc, ok := v.(Sc); ok && isRefType(t) {
		return If{Typ: code, Val: sc.T}
	}
	// box the value: a function of its components (so equal values give equal boxes)
	var parts []Term
	var collect func(v Value)
	collect = func(v Value) {
		switch x := v.(type) {
		case Sc:
			parts = append(parts, x.T)
		case Sl:
			parts = append(parts, x.Arr, x.Off, x.Len, x.Cap)
		case If:
			parts = append(parts, x.Typ, x.Val)
		case St:
			for _, f := range x.F {
				collect(f)
			}
		case Ar:
			parts = append(parts, x.Elems)
		}
	}
	collect(v)
	name := "box|" + typeKey(t)
	if len(parts) == 0 {
		return If{Typ: code, Val: c.d.Const(name, SInt)}
	}
	box := c.d.Apply(name, parts, SInt)
	// remember the boxed value for unboxing at type assertions
	c.eng.boxes[box.S] = v
	return If{Typ: code, Val: box}
}

func (c *Ctx) execUnOp(s *State, x *ssa.UnOp) {
	switch x.Op {
	case token.MUL: // load
		p := c.val(s, x.X).(Sc)
		if g, ok := x.X.(*ssa.Global); ok {
			c.setVal(s, x, c.loadGlobal(s, g))
			return
		}
		c.copyLockCheck(s, x, p)
		c.structGuards(s, x, p.T, x.Type(), false)
		c.setVal(s, x, c.loadPtr(s, x, p, x.Type()))
	case token.NOT:
		c.setVal(s, x, Sc{T: Not(c.val(s, x.X).(Sc).T)})
	case token.SUB:
		v := c.val(s, x.X).(Sc).T
		if v.Sort == SInt {
			c.setVal(s, x, Sc{T: Sub(IntLit(0), v)})
		} else if v.Sort.IsBV() {
			c.setVal(s, x, Sc{T: app("bvneg", v.Sort, v)})
		} else {
			c.setVal(s, x, Sc{T: c.freshConst("neg", v.Sort)})
		}
	case token.XOR:
		v := c.val(s, x.X).(Sc).T
		if v.Sort.IsBV() {
			c.setVal(s, x, Sc{T: app("bvnot", v.Sort, v)})
		} else {
			c.setVal(s, x, Sc{T: Sub(Sub(IntLit(0), v), IntLit(1))})
		}
	case token.ARROW:
		c.execRecv(s, x)
	default:
		c.unsupported("unop " + x.Op.String())
		c.setVal(s, x, c.freshValue(s, x.Type(), "unop"))
	}
}

// loadPtr loads through a pointer value, using its provenance when known.
func (c *Ctx) loadPtr(s *State, in ssa.Instruction, p Sc, t types.Type) Value {
	if p.Prov != nil {
		switch p.Prov.Kind {
		case 1:
			return c.loadField(s, p.Prov.Base, p.Prov.Struct, p.Prov.Field)
		case 2:
			return c.loadElem(s, p.Prov.Base, p.Prov.Idx, p.Prov.ElemT)
		}
	}
	c.nilCheck(s, in, p.T, "load")
	return c.loadAt(s, p.T, t)
}

func (c *Ctx) execStore(s *State, x *ssa.Store) {
	v := c.val(s, x.Val)
	if g, ok := x.Addr.(*ssa.Global); ok {
		c.storeGlobal(s, g, v)
		return
	}
	p := c.val(s, x.Addr).(Sc)
	if p.Prov != nil {
		switch p.Prov.Kind {
		case 1:
			c.guardWrite(s, x, p.Prov.Struct, p.Prov.Field, p.Prov.Base)
			c.storeField(s, p.Prov.Base, p.Prov.Struct, p.Prov.Field, v)
			return
		case 2:
			c.storeElem(s, p.Prov.Base, p.Prov.Idx, p.Prov.ElemT, v)
			return
		}
	}
	c.nilCheck(s, x, p.T, "store")
	c.structGuards(s, x, p.T, x.Val.Type(), true)
	c.storeAt(s, p.T, x.Val.Type(), v)
}

// structGuards: loading or storing a whole struct value reads / writes every field of it, the
// guarded ones included.
func (c *Ctx) structGuards(s *State, in ssa.Instruction, base Term, t types.Type, write bool) {
	st, ok := isStructType(t)
	if !ok || c.scout > 0 {
		return
	}
	for i := 0; i < st.NumFields(); i++ {
		if gf, ok := c.eng.guardOfField(t, i); ok {
			c.checkGuardNamed(s, in, gf, base, write, !write, "whole-struct")
		}
	}
}

func (c *Ctx) loadGlobal(s *State, g *ssa.Global) Value {
	et := g.Type().(*types.Pointer).Elem()
	// init-time constants extracted mechanically
	if v, ok := c.eng.globalConst(c, s, g); ok {
		return v
	}
	v := c.loadAt(s, c.globalRef(g), et)
	// exported sentinel errors of the standard library (net.ErrClosed, io.EOF, ...) are non-nil
	if iv, ok := v.(If); ok && !c.eng.repoPkgPaths[g.Pkg.Pkg.Path()] && (strings.HasPrefix(g.Name(), "Err") || g.Name() == "EOF") {
		s.assume(Neq(iv.Typ, IntLit(0)))
		c.note("standard-library sentinel error " + g.Pkg.Pkg.Name() + "." + g.Name() + " assumed non-nil")
	}
	return v
}

func (c *Ctx) storeGlobal(s *State, g *ssa.Global, v Value) {
	et := g.Type().(*types.Pointer).Elem()
	c.storeAt(s, c.globalRef(g), et, v)
}

func (c *Ctx) execIndexAddr(s *State, x *ssa.IndexAddr) {
	idx := c.toInt(c.val(s, x.Index).(Sc).T)
	name := fmt.Sprintf("%s/safe:index@%s#%d", fnKey(x.Parent()), otag(x), c.ordinal("index", x))
	pos := posOf(c.eng.prog, x)
	switch xt := x.X.Type().Underlying().(type) {
	case *types.Slice:
		sl := c.val(s, x.X).(Sl)
		inb := And(Le(IntLit(0), idx), Lt(idx, sl.Len))
		c.oblige(s, "safe", name, inb, pos, "index out of range", []string{"C18"})
		s.assume(inb)
		ea := c.elemAddrTerm(sl.Arr, Add(sl.Off, idx))
		s.assume(Not(Eq(ea, IntLit(0)))) // the address of an in-bounds element is never nil
		c.setVal(s, x, Sc{T: ea, Prov: &Prov{Kind: 2, Base: sl.Arr, Idx: Add(sl.Off, idx), ElemT: xt.Elem()}})
	case *types.Pointer:
		at := xt.Elem().Underlying().(*types.Array)
		p := c.val(s, x.X).(Sc)
		c.nilCheck(s, x, p.T, "array index")
		inb := And(Le(IntLit(0), idx), Lt(idx, IntLit(at.Len())))
		c.oblige(s, "safe", name, inb, pos, "index out of range", []string{"C18"})
		s.assume(inb)
		ea := c.elemAddrTerm(p.T, idx)
		s.assume(Not(Eq(ea, IntLit(0))))
		c.setVal(s, x, Sc{T: ea, Prov: &Prov{Kind: 2, Base: p.T, Idx: idx, ElemT: at.Elem()}})
	default:
		c.unsupported("IndexAddr on " + x.X.Type().String())
		c.setVal(s, x, Sc{T: c.freshConst("ia", SInt)})
	}
}

func (c *Ctx) elemAddrTerm(arr, idx Term) Term {
	return c.d.Apply("ea", []Term{arr, idx}, SInt)
}

func (c *Ctx) toInt(t Term) Term {
	if t.Sort.IsBV() {
		return BV2Int(t)
	}
	return t
}

func (c *Ctx) execIndex(s *State, x *ssa.Index) {
	idx := c.toInt(c.val(s, x.Index).(Sc).T)
	name := fmt.Sprintf("%s/safe:index@%s#%d", fnKey(x.Parent()), otag(x), c.ordinal("index", x))
	pos := posOf(c.eng.prog, x)
	switch v := c.val(s, x.X).(type) {
	case Sc: // string
		inb := And(Le(IntLit(0), idx), Lt(idx, StrLen(c.d, v.T)))
		c.oblige(s, "safe", name, inb, pos, "string index out of range", []string{"C18"})
		s.assume(inb)
		c.setVal(s, x, Sc{T: c.d.Apply("strbyte", []Term{v.T, idx}, SBV8)})
	case Ar:
		inb := And(Le(IntLit(0), idx), Lt(idx, IntLit(v.N)))
		c.oblige(s, "safe", name, inb, pos, "index out of range", []string{"C18"})
		s.assume(inb)
		c.setVal(s, x, Sc{T: Select(v.Elems, idx)})
	default:
		c.unsupported("Index on " + x.X.Type().String())
		c.setVal(s, x, c.freshValue(s, x.Type(), "idx"))
	}
}

func (c *Ctx) execSlice(s *State, x *ssa.Slice) {
	base := fmt.Sprintf("%s/safe:slice#%d", fnKey(x.Parent()), c.ordinal("slice", x))
	pos := posOf(c.eng.prog, x)
	var arr, off, ln, cp Term
	isString := false
	switch xt := x.X.Type().Underlying().(type) {
	case *types.Slice:
		sl := c.val(s, x.X).(Sl)
		arr, off, ln, cp = sl.Arr, sl.Off, sl.Len, sl.Cap
	case *types.Pointer:
		at := xt.Elem().Underlying().(*types.Array)
		p := c.val(s, x.X).(Sc)
		c.nilCheck(s, x, p.T, "slice of array")
		arr, off, ln, cp = p.T, IntLit(0), IntLit(at.Len()), IntLit(at.Len())
	case *types.Basic: // string
		isString = true
		sv := c.val(s, x.X).(Sc)
		ln = StrLen(c.d, sv.T)
		cp = ln
		off = IntLit(0)
		arr = sv.T
	default:
		c.unsupported("Slice on " + x.X.Type().String())
		c.setVal(s, x, c.freshValue(s, x.Type(), "slice"))
		return
	}
	lo := IntLit(0)
	if x.Low != nil {
		lo = c.toInt(c.val(s, x.Low).(Sc).T)
	}
	hi := ln
	if x.High != nil {
		hi = c.toInt(c.val(s, x.High).(Sc).T)
	}
	mx := cp
	if x.Max != nil {
		mx = c.toInt(c.val(s, x.Max).(Sc).T)
	}
	c.oblige(s, "safe", base+":low>=0", Le(IntLit(0), lo), pos, "slice bounds: low >= 0", []string{"C18"})
	c.oblige(s, "safe", base+":low<=high", Le(lo, hi), pos, "slice bounds: low <= high", []string{"C18"})
	c.oblige(s, "safe", base+":high<=cap", And(Le(hi, mx), Le(mx, cp)), pos, "slice bounds: high <= cap", []string{"C18"})
	s.assume(And(Le(IntLit(0), lo), Le(lo, hi), Le(hi, mx), Le(mx, cp)))
	if isString {
		// substring: abstract function of (s, lo, hi) with known length
		sub := c.d.Apply("substr", []Term{arr, lo, hi}, SStr)
		s.assume(Eq(StrLen(c.d, sub), Sub(hi, lo)))
		c.setVal(s, x, Sc{T: sub})
		return
	}
	c.setVal(s, x, Sl{Arr: arr, Off: Add(off, lo), Len: Sub(hi, lo), Cap: Sub(mx, lo)})
}

func (c *Ctx) execConvert(s *State, x *ssa.Convert) {
	from, to := x.X.Type(), x.Type()
	v := c.val(s, x.X)
	fs, ts := scalarSort(from), scalarSort(to)
	switch {
	case fs != "" && ts != "" && fs == ts && fs != SStr:
		// same representation; check ranges for Int
		sc := v.(Sc)
		if ts == SInt {
			c.setVal(s, x, Sc{T: c.wrapInt(s, x, sc.T, from, to)})
		} else {
			c.setVal(s, x, Sc{T: sc.T})
		}
	case fs.IsBV() && ts == SInt:
		c.setVal(s, x, Sc{T: BV2Int(v.(Sc).T)})
	case fs.IsBV() && ts.IsBV():
		a := v.(Sc).T
		fw, tw := fs.BVWidth(), ts.BVWidth()
		if tw > fw {
			c.setVal(s, x, Sc{T: app(fmt.Sprintf("(_ zero_extend %d)", tw-fw), ts, a)})
		} else {
			c.setVal(s, x, Sc{T: app(fmt.Sprintf("(_ extract %d 0)", tw-1), ts, a)})
		}
	case fs == SInt && ts.IsBV():
		a := v.(Sc).T
		if n, ok := isIntLit(a); ok && n >= 0 {
			c.setVal(s, x, Sc{T: BVLit(uint64(n), ts.BVWidth())})
		} else {
			c.setVal(s, x, Sc{T: Int2BV(a, ts.BVWidth())})
			c.note("int2bv used in " + fnKey(x.Parent()))
		}
	case ts == SFlt:
		a := v.(Sc).T
		if fs == SFlt {
			c.setVal(s, x, Sc{T: a})
		} else {
			ai := c.toInt(a)
			f := c.d.Apply("tofloat", []Term{ai}, SFlt)
			// int -> float conversion preserves the sign
			s.assume(Implies(Ge(ai, IntLit(0)), c.d.Apply("fnonneg", []Term{f}, SBool)))
			c.setVal(s, x, Sc{T: f})
		}
	case fs == SFlt && ts == SInt:
		r := c.freshValue(s, to, "fromfloat")
		c.setVal(s, x, r)
	case fs == SStr && ts == SStr:
		c.setVal(s, x, v)
	case ts == SStr:
		// []byte / rune / int -> string
		switch vv := v.(type) {
		case Sl:
			str := c.freshConst("bytes2str", SStr)
			s.assume(Eq(StrLen(c.d, str), vv.Len))
			c.setVal(s, x, Sc{T: str})
		default:
			c.setVal(s, x, c.freshValue(s, to, "tostr"))
		}
	case fs == SStr:
		// string -> []byte
		sv := v.(Sc).T
		r := c.newRef(s, "str2bytes")
		ln := StrLen(c.d, sv)
		c.setVal(s, x, Sl{Arr: r, Off: IntLit(0), Len: ln, Cap: ln})
	default:
		if types.Identical(from.Underlying(), to.Underlying()) {
			c.setVal(s, x, v)
			return
		}
		c.unsupported(fmt.Sprintf("convert %s -> %s", from, to))
		c.setVal(s, x, c.freshValue(s, to, "conv"))
	}
}

// wrapInt converts between Int-sorted integer types.
func (c *Ctx) wrapInt(s *State, in ssa.Instruction, a Term, from, to types.Type) Term {
	flo, fhi, ok1 := intRange(from)
	tlo, thi, ok2 := intRange(to)
	if !ok1 || !ok2 || (flo == tlo && fhi == thi) {
		return a
	}
	// widening is exact
	if bigLE(tlo, flo) && bigLE(fhi, thi) {
		return a
	}
	// narrowing / sign change: Go wraps silently. Model exactly with mod for unsigned targets;
	// for signed targets emit an in-range obligation (a wrap there is almost always a bug).
	if isUnsignedInt(to) {
		return app("mod", SInt, a, BigIntLit("18446744073709551616"))
	}
	name := fmt.Sprintf("%s/safe:conv#%d", fnKey(in.Parent()), c.ordinal("conv", in))
	inr := And(Le(BigIntLit(tlo), a), Le(a, BigIntLit(thi)))
	c.oblige(s, "safe", name, inr, posOf(c.eng.prog, in), "integer conversion changes the value", []string{"C18"})
	s.assume(inr)
	return a
}

func bigLE(a, b string) bool {
	// compare decimal strings with optional leading '-'
	na, nb := strings.HasPrefix(a, "-"), strings.HasPrefix(b, "-")
	if na && !nb {
		return true
	}
	if !na && nb {
		return false
	}
	if na {
		a, b = b[1:], a[1:]
	}
	if len(a) != len(b) {
		return len(a) < len(b)
	}
	return a <= b
}

func (c *Ctx) note(n string) {
	for _, x := range c.notes {
		if x == n {
			return
		}
	}
	c.notes = append(c.notes, n)
}

func (c *Ctx) execTypeAssert(s *State, x *ssa.TypeAssert) {
	iv, ok := c.val(s, x.X).(If)
	if !ok {
		c.unsupported("TypeAssert on non-interface value")
		c.setVal(s, x, c.freshValue(s, x.Type(), "ta"))
		return
	}
	at := x.AssertedType
	var okT Term
	var res Value
	if _, isIface := at.Underlying().(*types.Interface); isIface {
		if types.Identical(at.Underlying(), types.NewInterfaceType(nil, nil).Complete()) || at.Underlying().(*types.Interface).NumMethods() == 0 ||
			types.Implements(x.X.Type(), at.Underlying().(*types.Interface)) {
			// the static type already has the methods: only nil-ness matters
			okT = Neq(iv.Typ, IntLit(0))
		} else {
			okT = And(Neq(iv.Typ, IntLit(0)), c.d.Apply("implements|"+typeKey(at), []Term{iv.Typ}, SBool))
		}
		res = iv
	} else {
		okT = Eq(iv.Typ, IntLit(int64(typeCode(at))))
		if isRefType(at) {
			res = Sc{T: iv.Val}
		} else if bv, ok := c.eng.boxes[iv.Val.S]; ok {
			res = bv
		} else {
			res = c.unbox(s, iv.Val, at)
		}
	}
	if x.CommaOk {
		// result is (value-or-zero, ok)
		okc := c.freshConst("taok", SBool)
		s.assume(Eq(okc, okT))
		zero := c.zeroValue(at)
		c.setVal(s, x, Tu{E: []Value{c.iteValue(okc, res, zero), Sc{T: okc}}})
		return
	}
	name := fmt.Sprintf("%s/safe:assert#%d", fnKey(x.Parent()), c.ordinal("assert", x))
	c.oblige(s, "safe", name, okT, posOf(c.eng.prog, x), "type assertion "+x.String()+" may panic", []string{"C18"})
	s.assume(okT)
	c.setVal(s, x, res)
}

// unbox returns the components of a boxed non-pointer value as functions of the box.
func (c *Ctx) unbox(s *State, box Term, t types.Type) Value {
	if st, ok := isStructType(t); ok {
		v := St{Typ: t}
		for i := 0; i < st.NumFields(); i++ {
			ft := st.Field(i).Type()
			v.F = append(v.F, c.unboxComp(s, box, ft, typeKey(t)+"."+st.Field(i).Name()))
		}
		return v
	}
	return c.unboxComp(s, box, t, typeKey(t))
}

func (c *Ctx) unboxComp(s *State, box Term, t types.Type, name string) Value {
	if _, ok := isStructType(t); ok {
		return c.unbox(s, c.d.Apply("unboxsub|"+name, []Term{box}, SInt), t)
	}
	cs := compsOf(t)
	if cs == nil {
		return c.freshValue(s, t, "unbox")
	}
	var ts []Term
	for _, cp := range cs {
		ts = append(ts, c.d.Apply("unbox|"+name+cp.Suffix, []Term{box}, cp.Sort))
	}
	v := unflatten(t, ts)
	c.assumeTypeFacts(s, v, t)
	return v
}

func (c *Ctx) iteValue(cond Term, a, b Value) Value {
	switch x := a.(type) {
	case Sc:
		y, ok := b.(Sc)
		if !ok || x.T.Sort != y.T.Sort {
			return a
		}
		return Sc{T: Ite(cond, x.T, y.T), Prov: nil}
	case Sl:
		y := b.(Sl)
		return Sl{Ite(cond, x.Arr, y.Arr), Ite(cond, x.Off, y.Off), Ite(cond, x.Len, y.Len), Ite(cond, x.Cap, y.Cap)}
	case If:
		y := b.(If)
		return If{Ite(cond, x.Typ, y.Typ), Ite(cond, x.Val, y.Val)}
	case St:
		y, ok := b.(St)
		if !ok {
			return a
		}
		r := St{Typ: x.Typ}
		for i := range x.F {
			r.F = append(r.F, c.iteValue(cond, x.F[i], y.F[i]))
		}
		return r
	}
	return a
}

// ---- binary operations ----

func (c *Ctx) execBinOp(s *State, x *ssa.BinOp) Value {
	a, b := c.val(s, x.X), c.val(s, x.Y)
	switch x.Op {
	case token.EQL:
		return Sc{T: c.valuesEqual(s, a, b, x.X.Type())}
	case token.NEQ:
		return Sc{T: Not(c.valuesEqual(s, a, b, x.X.Type()))}
	}
	as, ok1 := a.(Sc)
	bs, ok2 := b.(Sc)
	if !ok1 || !ok2 {
		c.unsupported("binop on composite values: " + x.String())
		return c.freshValue(s, x.Type(), "binop")
	}
	A, B := as.T, bs.T
	t := x.X.Type()
	switch A.Sort {
	case SBool:
		switch x.Op {
		case token.LAND, token.AND:
			return Sc{T: And(A, B)}
		case token.LOR, token.OR:
			return Sc{T: Or(A, B)}
		}
	case SStr:
		switch x.Op {
		case token.ADD:
			r := c.d.Apply("concat", []Term{A, B}, SStr)
			s.assume(Eq(StrLen(c.d, r), Add(StrLen(c.d, A), StrLen(c.d, B))))
			return Sc{T: r}
		case token.LSS, token.LEQ, token.GTR, token.GEQ:
			return Sc{T: c.d.Apply("strcmp"+x.Op.String(), []Term{A, B}, SBool)}
		}
	case SFlt:
		switch x.Op {
		case token.LSS, token.LEQ, token.GTR, token.GEQ:
			return Sc{T: c.d.Apply("fcmp"+x.Op.String(), []Term{A, B}, SBool)}
		default:
			return Sc{T: c.d.Apply("fop"+x.Op.String(), []Term{A, B}, SFlt)}
		}
	case SInt:
		if B.Sort.IsBV() { // shift count of unsigned small type
			B = BV2Int(B)
		}
		return Sc{T: c.intBinOp(s, x, A, B, t)}
	}
	if A.Sort.IsBV() {
		return Sc{T: c.bvBinOp(s, x, A, B)}
	}
	c.unsupported("binop " + x.Op.String() + " on sort " + string(A.Sort))
	return c.freshValue(s, x.Type(), "binop")
}

func pow2(k int64) string {
	// decimal 2^k for k <= 64
	v := uint64(1)
	if k < 64 {
		return fmt.Sprintf("%d", v<<uint(k))
	}
	return "18446744073709551616"
}

func (c *Ctx) intBinOp(s *State, x *ssa.BinOp, A, B Term, t types.Type) Term {
	pos := posOf(c.eng.prog, x)
	fk := fnKey(x.Parent())
	rangeCheck := func(r Term) Term {
		lo, hi, ok := intRange(t)
		if !ok {
			return r
		}
		if isUnsignedInt(t) {
			return app("mod", SInt, r, BigIntLit("18446744073709551616"))
		}
		if _, lit := isIntLit(r); lit {
			return r
		}
		if fc := c.eng.contracts.funcs[qualFnName(x.Parent())]; fc != nil && fc.ArithTrusted != "" {
			c.note("overflow of signed arithmetic in " + fc.Key + " not checked: " + fc.ArithTrusted)
			return r
		}
		name := fmt.Sprintf("%s/safe:overflow#%d", fk, c.ordinal("overflow", x))
		inr := Term{fmt.Sprintf("(and (<= %s %s) (<= %s %s))", BigIntLit(lo).S, r.S, r.S, BigIntLit(hi).S), SBool}
		c.oblige(s, "arith", name, inr, pos, "signed integer overflow in "+x.Op.String(), []string{"C18"})
		s.assume(inr)
		return r
	}
	switch x.Op {
	case token.ADD:
		return rangeCheck(Add(A, B))
	case token.SUB:
		return rangeCheck(Sub(A, B))
	case token.MUL:
		return rangeCheck(Mul(A, B))
	case token.QUO, token.REM:
		name := fmt.Sprintf("%s/safe:div#%d", fk, c.ordinal("div", x))
		c.oblige(s, "safe", name, Neq(B, IntLit(0)), pos, "division by zero", []string{"C18"})
		s.assume(Neq(B, IntLit(0)))
		// Go truncates toward zero; SMT div/mod are Euclidean. Exact for non-negative operands.
		if x.Op == token.QUO {
			q := Term{fmt.Sprintf("(ite (>= %s 0) (ite (> %s 0) (div %s %s) (- (div %s (- %s)))) (ite (> %s 0) (- (div (- %s) %s)) (div (- %s) (- %s))))", A.S, B.S, A.S, B.S, A.S, B.S, B.S, A.S, B.S, A.S, B.S), SInt}
			return q
		}
		r := Term{fmt.Sprintf("(ite (>= %s 0) (mod %s (abs %s)) (- (mod (- %s) (abs %s))))", A.S, A.S, B.S, A.S, B.S), SInt}
		return r
	case token.LSS:
		return Lt(A, B)
	case token.LEQ:
		return Le(A, B)
	case token.GTR:
		return Gt(A, B)
	case token.GEQ:
		return Ge(A, B)
	case token.AND:
		// x & (2^k - 1) == x mod 2^k for any integer x (two's complement)
		if n, ok := isIntLit(B); ok && n >= 0 && (n&(n+1)) == 0 {
			return app("mod", SInt, A, IntLit(n+1))
		}
		if n, ok := isIntLit(A); ok && n >= 0 && (n&(n+1)) == 0 {
			return app("mod", SInt, B, IntLit(n+1))
		}
		r := c.d.Apply("int_and", []Term{A, B}, SInt)
		s.assume(Implies(And(Ge(A, IntLit(0)), Ge(B, IntLit(0))), And(Ge(r, IntLit(0)), Le(r, A), Le(r, B))))
		return r
	case token.OR:
		r := c.d.Apply("int_or", []Term{A, B}, SInt)
		s.assume(Implies(And(Ge(A, IntLit(0)), Ge(B, IntLit(0))), And(Ge(r, A), Ge(r, B), Le(r, Add(A, B)))))
		return r
	case token.XOR:
		r := c.d.Apply("int_xor", []Term{A, B}, SInt)
		s.assume(Implies(And(Ge(A, IntLit(0)), Ge(B, IntLit(0))), And(Ge(r, IntLit(0)), Le(r, Add(A, B)))))
		return r
	case token.SHL:
		if n, ok := isIntLit(B); ok && n >= 0 && n < 63 {
			return rangeCheck(Mul(A, BigIntLit(pow2(n))))
		}
		return c.freshValue(s, t, "shl").(Sc).T
	case token.SHR:
		if n, ok := isIntLit(B); ok && n >= 0 && n < 63 {
			return app("div", SInt, A, BigIntLit(pow2(n)))
		}
		return c.freshValue(s, t, "shr").(Sc).T
	case token.AND_NOT:
		r := c.d.Apply("int_andnot", []Term{A, B}, SInt)
		return r
	}
	c.unsupported("int binop " + x.Op.String())
	return c.freshConst("binop", SInt)
}

func (c *Ctx) bvBinOp(s *State, x *ssa.BinOp, A, B Term) Term {
	w := A.Sort.BVWidth()
	// shift counts may have another width / sort
	fixCount := func(b Term) Term {
		if b.Sort == SInt {
			if n, ok := isIntLit(b); ok && n >= 0 {
				if n >= int64(w) {
					n = int64(w)
				}
				return BVLit(uint64(n), w)
			}
			return Int2BV(b, w)
		}
		bw := b.Sort.BVWidth()
		if bw < w {
			return app(fmt.Sprintf("(_ zero_extend %d)", w-bw), A.Sort, b)
		}
		if bw > w {
			return app(fmt.Sprintf("(_ extract %d 0)", w-1), A.Sort, b)
		}
		return b
	}
	switch x.Op {
	case token.ADD:
		return app("bvadd", A.Sort, A, B)
	case token.SUB:
		return app("bvsub", A.Sort, A, B)
	case token.MUL:
		return app("bvmul", A.Sort, A, B)
	case token.AND:
		return app("bvand", A.Sort, A, B)
	case token.OR:
		return app("bvor", A.Sort, A, B)
	case token.XOR:
		return app("bvxor", A.Sort, A, B)
	case token.AND_NOT:
		return app("bvand", A.Sort, A, app("bvnot", B.Sort, B))
	case token.SHL:
		return app("bvshl", A.Sort, A, fixCount(B))
	case token.SHR:
		return app("bvlshr", A.Sort, A, fixCount(B))
	case token.LSS:
		return app("bvult", SBool, A, B)
	case token.LEQ:
		return app("bvule", SBool, A, B)
	case token.GTR:
		return app("bvugt", SBool, A, B)
	case token.GEQ:
		return app("bvuge", SBool, A, B)
	case token.QUO, token.REM:
		name := fmt.Sprintf("%s/safe:div#%d", fnKey(x.Parent()), c.ordinal("div", x))
		nz := Neq(B, BVLit(0, w))
		c.oblige(s, "safe", name, nz, posOf(c.eng.prog, x), "division by zero", []string{"C18"})
		s.assume(nz)
		if x.Op == token.QUO {
			return app("bvudiv", A.Sort, A, B)
		}
		return app("bvurem", A.Sort, A, B)
	}
	c.unsupported("bv binop " + x.Op.String())
	return c.freshConst("bvop", A.Sort)
}

// valuesEqual implements Go's == on two values of static type t.
func (c *Ctx) valuesEqual(s *State, a, b Value, t types.Type) Term {
	switch x := a.(type) {
	case Sc:
		y, ok := b.(Sc)
		if !ok {
			// comparing an interface with a concrete value etc.
			break
		}
		if x.T.Sort != y.T.Sort {
			if x.T.Sort == SInt && y.T.Sort.IsBV() {
				return Eq(x.T, BV2Int(y.T))
			}
			if y.T.Sort == SInt && x.T.Sort.IsBV() {
				return Eq(BV2Int(x.T), y.T)
			}
			c.unsupported(fmt.Sprintf("== on different sorts: %s:%s vs %s:%s", x.T.S, x.T.Sort, y.T.S, y.T.Sort))
			return c.freshConst("eq", SBool)
		}
		if x.T.Sort == SFlt {
			return c.d.Apply("feq", []Term{x.T, y.T}, SBool)
		}
		return Eq(x.T, y.T)
	case If:
		y, ok := b.(If)
		if ok {
			// nil comparison: only the type word matters
			if y.Typ.S == "0" {
				return Eq(x.Typ, IntLit(0))
			}
			if x.Typ.S == "0" {
				return Eq(y.Typ, IntLit(0))
			}
			return And(Eq(x.Typ, y.Typ), Eq(x.Val, y.Val))
		}
	case Sl:
		y, ok := b.(Sl)
		if ok && y.Arr.S == "0" { // slice == nil
			return Eq(x.Arr, IntLit(0))
		}
		if ok && x.Arr.S == "0" {
			return Eq(y.Arr, IntLit(0))
		}
	case St:
		y, ok := b.(St)
		if ok && len(x.F) == len(y.F) {
			var cs []Term
			st, _ := isStructType(x.Typ)
			for i := range x.F {
				var ft types.Type
				if st != nil {
					ft = st.Field(i).Type()
				}
				cs = append(cs, c.valuesEqual(s, x.F[i], y.F[i], ft))
			}
			return And(cs...)
		}
	case Ar:
		y, ok := b.(Ar)
		if ok {
			return Eq(x.Elems, y.Elems)
		}
	}
	c.unsupported(fmt.Sprintf("== on %T and %T", a, b))
	return c.freshConst("eq", SBool)
}

// containsLock: the type contains a sync.Mutex / RWMutex by value (transitively).
func containsLock(t types.Type, depth int) bool {
	if depth > 6 {
		return false
	}
	if n, ok := t.(*types.Named); ok {
		k := typeKey(n)
		if k == "sync.Mutex" || k == "sync.RWMutex" || k == "sync.Once" || k == "sync.WaitGroup" {
			return true
		}
	}
	switch u := t.Underlying().(type) {
	case *types.Struct:
		for i := 0; i < u.NumFields(); i++ {
			if containsLock(u.Field(i).Type(), depth+1) {
				return true
			}
		}
	case *types.Array:
		return containsLock(u.Elem(), depth+1)
	}
	return false
}

// copyLockCheck: loading a whole value that contains a mutex from shared memory makes a copy whose
// guarded fields are no longer protected by the original mutex (and, for a cache or a server object,
// silently forks its state). Loading a freshly built local value (constructor result) is fine.
func (c *Ctx) copyLockCheck(s *State, x *ssa.UnOp, p Sc) {
	if c.scout > 0 || !containsLock(x.Type(), 0) {
		return
	}
	name := fmt.Sprintf("%s/copylock@UnOp#%d", fnKey(x.Parent()), c.ordinal("nil", x))
	fresh := c.isFreshLocal(s, p.T)
	c.structural(fresh, "copylock", name, posOf(c.eng.prog, x),
		"copy of a value containing a mutex ("+x.Type().String()+") from shared memory: the copy is not protected by (and diverges from) the original", []string{"C19", "C07"})
}

// opqName extracts the callee name from a symbol "opq|name!N..." (result of a call without contract).
func opqName(sym string) string {
	sym = strings.TrimPrefix(strings.TrimPrefix(sym, "opq|"), "opq!")
	for i, ch := range sym {
		if ch == '!' || ch == '|' || ch == ' ' || ch == '#' || ch == ')' && !strings.Contains(sym[:i], "(") || ch == '.' && i > 0 && i+1 < len(sym) && sym[i+1] >= '0' && sym[i+1] <= '9' {
			return sym[:i]
		}
	}
	return sym
}

// opqIndex finds the symbol of an un-contracted call result in a term ("opq|" in the hint; symbol quoting
// turns the bar into "!").
func opqIndex(t string) int {
	if i := strings.Index(t, "opq|"); i >= 0 {
		return i
	}
	return strings.Index(t, "opq!")
}
