package main

import (
	"strconv"
	"fmt"
	"go/types"
	"strings"

	"golang.org/x/tools/go/ssa"
)

type closureInfo struct {
	fn    *ssa.Function
	binds []Value
}

// addCaptured records the values a closure captured (with their static types) on an event.
func (ev *Event) addCaptured(ci *closureInfo) {
	for i, b := range ci.binds {
		if ci.fn != nil && i < len(ci.fn.FreeVars) {
			ev.Extra = append(ev.Extra, b)
			ev.ExtraT = append(ev.ExtraT, ci.fn.FreeVars[i].Type())
		}
	}
}

// calleeName returns the lookup key for contracts / events of a call.
//   static function:   "service.(*natmap).Add", "io.ReadFull", "(*sync.Mutex).Lock"
//   interface invoke:  "net.PacketConn.ReadFrom" (interface type name + method)
func calleeName(cc *ssa.CallCommon) string {
	if cc.IsInvoke() {
		return ifaceName(cc.Value.Type()) + "." + cc.Method.Name()
	}
	if fn := cc.StaticCallee(); fn != nil {
		return qualFnName(fn)
	}
	return ""
}

func ifaceName(t types.Type) string {
	if n, ok := t.(*types.Named); ok {
		if n.Obj().Pkg() != nil {
			return n.Obj().Pkg().Name() + "." + n.Obj().Name()
		}
		return n.Obj().Name()
	}
	if a, ok := t.(*types.Alias); ok {
		return ifaceName(types.Unalias(a))
	}
	return t.String()
}

// fnNameOverride re-binds functions to contract keys: when closures are renumbered, or a closure / a
// function is extracted or renamed, the contract written for "F$2" follows the function it describes
// (matched by its captured variables and parameters, see rebindContracts).
var fnNameOverride = map[*ssa.Function]string{}

// qualFnName: package-short-qualified function key, e.g. service.(*natmap).Add$1, io.Copy
func qualFnName(fn *ssa.Function) string {
	if n, ok := fnNameOverride[fn]; ok {
		return n
	}
	if p := fn.Parent(); p != nil && len(fnNameOverride) > 0 {
		for q := p; q != nil; q = q.Parent() {
			if _, ok := fnNameOverride[q]; ok {
				for i, a := range p.AnonFuncs {
					if a == fn {
						return qualFnName(p) + "$" + strconv.Itoa(i+1)
					}
				}
			}
		}
	}
	return rawFnName(fn)
}

func rawFnName(fn *ssa.Function) string {
	root := fn
	for root.Parent() != nil {
		root = root.Parent()
	}
	if root.Pkg == nil {
		// synthetic wrappers, bound methods, instantiations
		if fn.Origin() != nil && fn.Origin().Pkg != nil {
			return fn.Origin().Pkg.Pkg.Name() + "." + fn.Origin().RelString(fn.Origin().Pkg.Pkg)
		}
		s := fn.String()
		return s
	}
	return root.Pkg.Pkg.Name() + "." + fn.RelString(root.Pkg.Pkg)
}

func (c *Ctx) contractFor(name string) *FuncContract {
	if name == "" {
		return nil
	}
	if fc := c.eng.contracts.funcs[name]; fc != nil && !fc.Detached {
		return fc
	}
	return nil
}

// execCall handles a call instruction. Returns forked states (inlined callees with several return paths).
func (c *Ctx) execCall(s *State, in ssa.Instruction, cc *ssa.CallCommon, res ssa.Value, out *[]retPath) []*State {
	pos := posOf(c.eng.prog, in)
	// builtins
	if b, ok := cc.Value.(*ssa.Builtin); ok {
		c.execBuiltin(s, in, b, cc, res)
		return nil
	}
	var args []Value
	var recv Value
	if cc.IsInvoke() {
		recv = c.val(s, cc.Value)
	}
	for _, a := range cc.Args {
		args = append(args, c.val(s, a))
	}
	name := calleeName(cc)
	callee := cc.StaticCallee()
	var binds []Value
	if callee == nil && !cc.IsInvoke() {
		// call through a function value: closure known on this path?
		fv := c.val(s, cc.Value)
		if sc, ok := fv.(Sc); ok {
			if ci, ok := c.eng.closures[sc.T.S]; ok {
				callee, binds = ci.fn, ci.binds
				name = qualFnName(callee)
			} else {
				// function value from a field / parameter: contract by declared name of the holder
				name = c.funcValueContractName(cc.Value)
				nm := fmt.Sprintf("%s/safe:nilcall@%s#%d", fnKey(in.Parent()), otag(in), c.ordinal("nilcall", in))
				c.oblige(s, "safe", nm, Neq(sc.T, IntLit(0)), pos, "call of nil function value", []string{"C18"})
				s.assume(Neq(sc.T, IntLit(0)))
			}
		}
	} else if callee != nil {
		if mc, ok := cc.Value.(*ssa.MakeClosure); ok {
			for _, b := range mc.Bindings {
				binds = append(binds, c.val(s, b))
			}
		} else if sc, ok := c.val(s, cc.Value).(Sc); ok && len(callee.FreeVars) > 0 {
			if ci, ok := c.eng.closures[sc.T.S]; ok {
				binds = ci.binds
			}
		}
	}
	if cc.IsInvoke() {
		if impl, ok := c.eng.contracts.dispatch[name]; ok {
			if fn := c.eng.fnByKey[impl]; fn != nil {
				if iv, ok := recv.(If); ok {
					nm := fmt.Sprintf("%s/safe:nilcall@%s#%d", fnKey(in.Parent()), otag(in), c.ordinal("nilcall", in))
					c.oblige(s, "safe", nm, Neq(iv.Typ, IntLit(0)), pos, "method call on nil interface: "+name, []string{"C18"})
					s.assume(Neq(iv.Typ, IntLit(0)))
					// the dynamic type is the repo implementation (stated assumption)
					c.note("interface " + name + " dispatched to " + impl + " (the only non-test implementation)")
					callee = fn
					name = impl
					args = append([]Value{Sc{T: iv.Val}}, args...)
					recv = nil
					s.assume(Neq(iv.Val, IntLit(0)))
				}
			}
		}
	}
	if cc.IsInvoke() && callee == nil {
		iv, ok := recv.(If)
		if ok {
			nm := fmt.Sprintf("%s/safe:nilcall@%s#%d", fnKey(in.Parent()), otag(in), c.ordinal("nilcall", in))
			c.oblige(s, "safe", nm, Neq(iv.Typ, IntLit(0)), pos, "method call on nil interface: "+name, []string{"C18"})
			s.assume(Neq(iv.Typ, IntLit(0)))
		}
	}
	// special models (locks, once, waitgroup, time)
	if name == "sync.(*Once).Do" {
		return c.execOnceDo(s, in, cc, args, out)
	}
	if c.specialCall(s, in, name, cc, recv, args, res) {
		return nil
	}
	fc := c.contractFor(name)
	// record the event if declared
	evName := name
	if fc != nil && fc.Event != "" {
		evName = fc.Event
	}
	ev := Event{Name: evName, Recv: recv, Args: args, PC: len(s.pc), Pos: pos}
	for _, a := range args {
		if sc, ok := a.(Sc); ok {
			if ci, ok := c.eng.closures[sc.T.S]; ok {
				ev.addCaptured(ci)
			}
		}
	}
	if callee != nil && len(binds) > 0 {
		ev.addCaptured(&closureInfo{fn: callee, binds: binds})
	}
	for _, a := range cc.Args {
		ev.ArgT = append(ev.ArgT, a.Type())
	}
	if len(ev.ArgT) != len(args) {
		ev.ArgT = nil // dispatched invoke: receiver was prepended
	}
	if cc.IsInvoke() {
		ev.RecvT = cc.Value.Type()
	}
	if res != nil {
		ev.ResT = res.Type()
	}
	isEvent := c.eng.isEvent(evName)

	// 0. closure verified in the context of its caller (see verifyInContext)
	inCtx := fc != nil && callee != nil && c.inContext[fc.Key] && len(callee.Blocks) > 0 && !c.onStack(s, callee)
	if inCtx {
		env := c.callEnv(s, fc, callee, cc, recv, args)
		c.bindFreeVars(env, callee, binds)
		env.old = s.snapshot()
		for i, rq := range fc.Requires {
			g := env.evalRequires(rq.Expr, callee)
			c.reportEvalErrors(env, fc, rq.Src)
			nm := fmt.Sprintf("%s/requires@%s#%d:%s[%d]", fnKey(in.Parent()), otag(in), c.ordinal("requires", in), shortName(fc.Key), i+1)
			c.oblige(s, "requires", nm, g, pos, "precondition of "+fc.Key+": "+rq.Src, c.props)
			s.assume(g)
		}
	}
	// 1. modular: callee (or assumed external) has a contract
	if fc != nil && (fc.HasSpec || fc.Assumed || fc.Pure) && !fc.Inline && !inCtx {
		r := c.applyContract(s, in, fc, callee, cc, recv, args, binds, res)
		ev.Res = r
		if isEvent {
			s.seq++
			ev.Seq = s.seq
			s.trace = append(s.trace, ev)
		}
		if res != nil {
			c.setVal(s, res, r)
		}
		return nil
	}
	// 2. inline repo functions without contract
	if inCtx || callee != nil && len(callee.Blocks) > 0 && c.eng.inlinable(callee) && !(fc != nil && fc.Opaque) && c.depth < 6 && !c.onStack(s, callee) {
		traceStart := len(s.trace)
		if isEvent {
			s.seq++
			ev.Seq = s.seq
			s.trace = append(s.trace, ev)
		}
		c.inlined[qualFnName(callee)] = true
		c.depth++
		nframes := len(s.frames)
		rets := c.runFunction(s, callee, args, binds)
		c.depth--
		var forks []*State
		for i, rp := range rets {
			if inCtx && len(rp.s.frames) > nframes && !rp.s.dead {
				ts := traceStart
				if isEvent {
					ts++ // the call event itself belongs to the caller
				}
				if ts > len(rp.s.trace) {
					ts = len(rp.s.trace)
				}
				c.checkReturnFrame(rp, fc, callee, args, rp.s.frames[nframes], rp.s.trace[ts:], true)
			}
			rp.s.frames = rp.s.frames[:nframes]
			var rv Value
			switch len(rp.vals) {
			case 0:
				rv = Tu{}
			case 1:
				rv = rp.vals[0]
			default:
				rv = Tu{E: rp.vals}
			}
			if res != nil {
				rp.s.top().vals[res] = rv
			}
			if isEvent {
				// the event recorded before inlining gets this path's result
				for k := len(rp.s.trace) - 1; k >= 0; k-- {
					if rp.s.trace[k].Seq == ev.Seq && rp.s.trace[k].Name == ev.Name {
						rp.s.trace[k].Res = rv
						break
					}
				}
			}
			_ = i
			if rp.s == s {
				continue
			}
			forks = append(forks, rp.s)
		}
		// if the original state did not survive as a return path, kill it
		survived := false
		for _, rp := range rets {
			if rp.s == s {
				survived = true
			}
		}
		if !survived {
			s.dead = true
			if len(s.frames) > nframes {
				s.frames = s.frames[:nframes]
			}
		}
		return forks
	}
	// 3. opaque
	if isEvent {
		s.seq++
		ev.Seq = s.seq
	}
	c.opaque[name] = true
	var r Value
	if res != nil {
		c.paramMode = true
		hint := "opq|"
		if benignOpaque(name) {
			hint = "ret|" // results that only feed logging / error texts
		}
		r = c.freshValue(s, res.Type(), hint+shortName(name))
		c.paramMode = false
		// results of opaque calls are at least as old as "now"
		s.clock++
		c.setVal(s, res, r)
	}
	ev.Res = r
	if isEvent {
		s.trace = append(s.trace, ev)
	}
	return nil
}

func shortName(n string) string {
	if i := strings.LastIndex(n, "/"); i >= 0 {
		n = n[i+1:]
	}
	return n
}

func (c *Ctx) onStack(s *State, fn *ssa.Function) bool {
	for _, f := range s.frames {
		if f.fn == fn {
			return true
		}
	}
	return false
}

// funcValueContractName: the contract name for calls through a function value
// loaded from a struct field: "<pkg>.<Type>.<field>" ; from a parameter: "<fn>.<param>".
func (c *Ctx) funcValueContractName(v ssa.Value) string {
	switch x := v.(type) {
	case *ssa.UnOp:
		if fa, ok := x.X.(*ssa.FieldAddr); ok {
			pt := fa.X.Type().Underlying().(*types.Pointer).Elem()
			return shortTypeKey(pt) + "." + pt.Underlying().(*types.Struct).Field(fa.Field).Name()
		}
		if g, ok := x.X.(*ssa.Global); ok {
			return g.Pkg.Pkg.Name() + "." + g.Name()
		}
		if fv, ok := x.X.(*ssa.FreeVar); ok {
			return qualFnName(fv.Parent()) + "." + fv.Name()
		}
	case *ssa.Parameter:
		return qualFnName(x.Parent()) + "." + x.Name()
	case *ssa.FreeVar:
		return qualFnName(x.Parent()) + "." + x.Name()
	case *ssa.Field:
		return "field." + x.Name()
	case *ssa.Extract:
		// value produced by ranging over a map held in a struct field: contract of that field
		if nx, ok := x.Tuple.(*ssa.Next); ok {
			if rg, ok := nx.Iter.(*ssa.Range); ok {
				if ld, ok := rg.X.(*ssa.UnOp); ok {
					if fa, ok := ld.X.(*ssa.FieldAddr); ok {
						pt := fa.X.Type().Underlying().(*types.Pointer).Elem()
						return shortTypeKey(pt) + "." + pt.Underlying().(*types.Struct).Field(fa.Field).Name()
					}
				}
			}
		}
		if n, ok := v.Type().(*types.Named); ok {
			return shortTypeKey(n)
		}
	case *ssa.Phi:
		if n, ok := v.Type().(*types.Named); ok {
			return shortTypeKey(n)
		}
	}
	if n, ok := v.Type().(*types.Named); ok {
		return shortTypeKey(n)
	}
	return "funcvalue"
}

// applyContract: assert requires, havoc the frame, assume ensures; returns the result value.
func (c *Ctx) applyContract(s *State, in ssa.Instruction, fc *FuncContract, callee *ssa.Function, cc *ssa.CallCommon, recv Value, args []Value, binds []Value, res ssa.Value) Value {
	pos := posOf(c.eng.prog, in)
	if fc.Assumed {
		c.assumedUsed[fc.Key] = true
	}
	if fc.Unverified {
		c.assumedUsed[fc.Key+" (repo function; contract used but not verified: "+fc.UnverifiedWhy+")"] = true
	}
	// lock order across contract boundaries: the callee may acquire locks of level >= AcquiresLevel
	if fc.AcquiresLevel > 0 {
		ok := true
		worst := ""
		for _, l := range s.locks {
			if l.Level != 0 && l.Level >= fc.AcquiresLevel {
				ok = false
				worst = l.Key
			}
		}
		c.structural(ok, "locklevel", fmt.Sprintf("%s/lockorder@%s#%d:%s", fnKey(in.Parent()), otag(in), c.ordinal("call", in), shortName(fc.Key)), pos,
			fmt.Sprintf("lock order: calling %s (acquires locks of level >= %d) while holding %s", fc.Key, fc.AcquiresLevel, worst), []string{"C13"})
		if cur := c.eng.contracts.funcs[qualFnName(c.fn)]; cur != nil && in.Parent() == c.fn {
			c.structural(cur.AcquiresLevel > 0 && fc.AcquiresLevel >= cur.AcquiresLevel, "locklevel", fmt.Sprintf("%s/lockorder@%s#%d:%s:declared", fnKey(in.Parent()), otag(in), c.ordinal("call", in), shortName(fc.Key)), pos,
				fmt.Sprintf("callee %s acquires level %d, below this function's declared acquires-level %d", fc.Key, fc.AcquiresLevel, cur.AcquiresLevel), []string{"C13"})
		}
	}
	env := c.callEnv(s, fc, callee, cc, recv, args)
	c.bindFreeVars(env, callee, binds)
	pre := s.snapshot()
	env.old = pre
	for i, h := range fc.Holds {
		key, base, ok := env.lockOf(h.Expr)
		var alts []Term
		if ok {
			for _, l := range s.locks {
				if l.Key == key && l.Write {
					alts = append(alts, Eq(l.Base, base))
				}
			}
		}
		name := fmt.Sprintf("%s/holds@%s#%d:%s[%d]", fnKey(in.Parent()), otag(in), c.ordinal("requires", in), shortName(fc.Key), i+1)
		c.oblige(s, "guard", name, Or(alts...), pos, "callee "+fc.Key+" requires the caller to hold "+h.Src, []string{"C19"})
	}
	for i, ul := range fc.UnderLock {
		ok := false
		for _, l := range s.locks {
			if l.Key == ul.Key && (l.Write || ul.Read) {
				ok = true
			}
		}
		name := fmt.Sprintf("%s/holds@%s#%d:%s:under[%d]", fnKey(in.Parent()), otag(in), c.ordinal("requires", in), shortName(fc.Key), i+1)
		c.oblige(s, "guard", name, BoolLit(ok), pos, "callee "+fc.Key+" requires the caller to hold "+ul.Key, append([]string{"C19"}, c.props...))
	}
	for i, rq := range fc.Requires {
		g := env.evalRequires(rq.Expr, callee)
		c.reportEvalErrors(env, fc, rq.Src)
		name := fmt.Sprintf("%s/requires@%s#%d:%s[%d]", fnKey(in.Parent()), otag(in), c.ordinal("requires", in), shortName(fc.Key), i+1)
		props := rq.Props
		if len(props) == 0 {
			props = fc.Props
		}
		if len(props) == 0 || fc.Assumed {
			props = c.props // an assumed callee's precondition is the caller's obligation
		}
		c.oblige(s, "requires", name, g, pos, "precondition of "+fc.Key+": "+rq.Src, props)
		s.assume(g)
	}
	// receiver of a method that is not safe for concurrent use: it must be an object created in this
	// activation (not yet shared), or the caller must hold a lock exclusively
	if fc.NotThreadSafe {
		var rt Term
		if iv, ok := recv.(If); ok {
			rt = iv.Val
		} else if len(args) > 0 {
			if sc, ok := args[0].(Sc); ok {
				rt = sc.T
			}
		}
		if rt.S != "" {
			goal := False
			if len(s.frames) > 0 {
				c.d.Fun("birth", []Sort{SInt}, SInt)
				goal = Gt(app("birth", SInt, rt), IntLit(int64(s.frames[0].entryClock)))
			}
			for _, l := range s.locks {
				if l.Write {
					goal = True
				}
			}
			name := fmt.Sprintf("%s/guard:unshared@%s#%d:%s", fnKey(in.Parent()), otag(in), c.ordinal("unshared", in), shortName(fc.Key))
			props := append([]string{"C19"}, c.props...)
			c.oblige(s, "guard", name, goal, pos, "receiver of "+fc.Key+" (not safe for concurrent use) must be created in this activation or protected by an exclusively held lock", props)
		}
	}
	// frame
	if fc.Assumed {
		for _, m := range fc.Modifies {
			c.havocTarget(s, env, m)
		}
	} else if callee != nil {
		c.applyMods(s, c.eng.modsOf(c, callee), args, binds)
	}
	// result
	var r Value
	var rts []types.Type
	if res != nil {
		rt := res.Type()
		if fc.Clock {
			r = Sc{T: c.clockRead(s, pos)}
		} else if fc.Pure {
			r = c.pureResult(s, fc, recv, args, rt)
		} else if fc.Fresh && isRefType(rt) {
			r = Sc{T: c.newRef(s, "fresh|"+shortName(fc.Key))}
		} else if _, isIface := rt.Underlying().(*types.Interface); fc.Fresh && isIface {
			ty := c.freshConst("freshtyp|"+shortName(fc.Key), SInt)
			s.assume(Gt(ty, IntLit(0)))
			r = If{Typ: ty, Val: c.newRef(s, "fresh|"+shortName(fc.Key))}
		} else {
			s.clock++
			// returned slices are modelled as views starting at index 0 unless the contract says they alias arguments
			c.paramMode = !fc.Aliases
			r = c.freshValue(s, rt, "ret|"+shortName(fc.Key))
			c.paramMode = false
		}
		if tu, ok := rt.(*types.Tuple); ok {
			for i := 0; i < tu.Len(); i++ {
				rts = append(rts, tu.At(i).Type())
			}
		} else {
			rts = []types.Type{rt}
		}
	} else {
		s.clock++
	}
	env.s = s
	env.results = nil
	if r != nil {
		if tu, ok := r.(Tu); ok {
			for i, e := range tu.E {
				env.results = append(env.results, tv{e, rts[i]})
			}
		} else {
			env.results = []tv{{r, rts[0]}}
		}
	}
	if len(fc.GhostAtExit) > 0 {
		// the callee's ghost effects happen here, in terms of its parameters and results
		c.applyGhostEnv(s, env, fc.GhostAtExit)
	}
	for _, en := range fc.Ensures {
		g := env.evalBool(en.Expr)
		c.reportEvalErrors(env, fc, en.Src)
		s.assume(g)
	}
	return r
}

func (c *Ctx) reportEvalErrors(env *Env, fc *FuncContract, src string) {
	for _, e := range env.errs {
		c.unsupported(fmt.Sprintf("contract %s: %s (in %q)", fc.Key, e, src))
	}
	env.errs = nil
}

// callEnv binds the callee's parameter names to the argument values.
func (c *Ctx) callEnv(s *State, fc *FuncContract, callee *ssa.Function, cc *ssa.CallCommon, recv Value, args []Value) *Env {
	env := &Env{c: c, s: s, vars: map[string]tv{}, fn: callee}
	if callee != nil {
		if callee.Pkg != nil {
			env.pkg = callee.Pkg.Pkg
		} else if callee.Parent() != nil {
			root := callee
			for root.Parent() != nil {
				root = root.Parent()
			}
			if root.Pkg != nil {
				env.pkg = root.Pkg.Pkg
			}
		}
		for i, p := range callee.Params {
			if i < len(args) {
				env.vars[p.Name()] = tv{args[i], p.Type()}
			}
		}
		// free variables of closures are bound by the caller when known
	}
	if fc != nil && len(fc.Params) > 0 && callee != nil && len(callee.Blocks) > 0 && len(callee.Params) != len(fc.Params) {
		// the parameter list changed: the contract's positional names no longer line up; the source names
		// (bound above) are the best reading of what it means
	} else if fc != nil && len(fc.Params) > 0 && callee != nil && len(callee.Blocks) > 0 && len(callee.Params) >= len(args) {
		// repo function with positional parameter names: the i-th name denotes the i-th SSA parameter
		for i, pn := range fc.Params {
			if i < len(args) && i < len(callee.Params) {
				env.vars[pn] = tv{args[i], callee.Params[i].Type()}
			}
		}
	} else if fc != nil && len(fc.Params) > 0 {
		// assumed contract: explicit parameter names; first is the receiver for invokes
		all := args
		var tys []types.Type
		if cc != nil && cc.IsInvoke() {
			all = append([]Value{recv}, args...)
			tys = append(tys, cc.Value.Type())
		}
		if cc != nil {
			for _, a := range cc.Args {
				tys = append(tys, a.Type())
			}
		}
		for i, pn := range fc.Params {
			if i < len(all) {
				var t types.Type
				if i < len(tys) {
					t = tys[i]
				}
				env.vars[pn] = tv{all[i], t}
			}
		}
	}
	if env.pkg == nil && c.fn != nil && c.fn.Pkg != nil {
		env.pkg = c.fn.Pkg.Pkg
	}
	if callee != nil {
		for o, n := range c.eng.localAlias[qualFnName(callee)] {
			if v, ok := env.vars[n]; ok {
				if _, has := env.vars[o]; !has {
					env.vars[o] = v
					c.eng.aliasUsed[c.key] = true
				}
			}
		}
	}
	return env
}

// pureWithEnsures: the pure result together with the facts its contract promises about it.
func (c *Ctx) pureWithEnsures(s *State, fc *FuncContract, args []Value, argTypes []types.Type, rt types.Type) Value {
	r := c.pureResult(s, fc, nil, args, rt)
	if len(fc.Ensures) == 0 || len(fc.Params) == 0 {
		return r
	}
	env := &Env{c: c, s: s, vars: map[string]tv{}}
	env.old = s.snapshot()
	for i, pn := range fc.Params {
		if i < len(args) {
			var t types.Type
			if i < len(argTypes) {
				t = argTypes[i]
			}
			env.vars[pn] = tv{args[i], t}
		}
	}
	if tu, ok := r.(Tu); ok {
		rtt := rt.(*types.Tuple)
		for i, e := range tu.E {
			env.results = append(env.results, tv{e, rtt.At(i).Type()})
		}
	} else {
		env.results = []tv{{r, rt}}
	}
	for _, en := range fc.Ensures {
		g := env.evalBool(en.Expr)
		if len(env.errs) == 0 {
			s.assume(g)
		}
		env.errs = nil
	}
	return r
}

// pureResult: result is an uninterpreted function of the arguments.
func (c *Ctx) pureResult(s *State, fc *FuncContract, recv Value, args []Value, rt types.Type) Value {
	var parts []Term
	add := func(v Value) {
		switch x := v.(type) {
		case Sc:
			parts = append(parts, x.T)
		case Sl:
			parts = append(parts, x.Arr, x.Off, x.Len)
		case If:
			parts = append(parts, x.Typ, x.Val)
		case St:
			var rec func(v Value)
			rec = func(v Value) {
				switch y := v.(type) {
				case Sc:
					parts = append(parts, y.T)
				case Sl:
					parts = append(parts, y.Arr, y.Off, y.Len)
				case If:
					parts = append(parts, y.Typ, y.Val)
				case St:
					for _, f := range y.F {
						rec(f)
					}
				}
			}
			rec(x)
		}
	}
	if recv != nil {
		add(recv)
	}
	for _, a := range args {
		add(a)
	}
	mk := func(t types.Type, suffix string) Value {
		cs := compsOf(t)
		if cs == nil {
			return c.freshValue(s, t, "pure")
		}
		var ts []Term
		for _, cp := range cs {
			ts = append(ts, c.d.Apply("pure|"+fc.Key+suffix+cp.Suffix, parts, cp.Sort))
		}
		v := unflatten(t, ts)
		c.assumeTypeFacts(s, v, t)
		return v
	}
	if tu, ok := rt.(*types.Tuple); ok {
		var r Tu
		for i := 0; i < tu.Len(); i++ {
			r.E = append(r.E, mk(tu.At(i).Type(), fmt.Sprintf("#%d", i)))
		}
		return r
	}
	return mk(rt, "")
}

// havocTarget havocs what a modifies-expression denotes:
//   elems(x)   all elements of the backing array of slice x
//   x.f        field f of object x
//   *p         the cell p points to
func (c *Ctx) havocTarget(s *State, env *Env, m Expr) {
	switch n := m.(type) {
	case ECall:
		if n.Fn == "elems" && len(n.Args) == 1 {
			v := env.eval(n.Args[0])
			sl, ok := v.v.(Sl)
			if !ok || v.t == nil {
				return
			}
			et := v.t.Underlying().(*types.Slice).Elem()
			for _, cp := range compsOf(et) {
				name := "Elem|" + typeKey(et) + cp.Suffix
				h := c.getHeap(s, name, ArrSort(SInt, ArrSort(SInt, cp.Sort)))
				oldInner := Select(h, sl.Arr)
				nv := c.freshConst("hvelems", ArrSort(SInt, cp.Sort))
				// cells outside the slice's window [off, off+len) keep their contents
				c.fresh++
				j := fmt.Sprintf("j!%d", c.fresh)
				s.assume(Term{fmt.Sprintf("(forall ((%s Int)) (=> (or (< %s %s) (>= %s (+ %s %s))) (= (select %s %s) (select %s %s))))",
					j, j, sl.Off.S, j, sl.Off.S, sl.Len.S, nv.S, j, oldInner.S, j), SBool})
				c.setHeap(s, name, Store(h, sl.Arr, nv))
			}
			return
		}
		if n.Fn == "heap" && len(n.Args) == 1 {
			if id, ok := n.Args[0].(EStr); ok {
				c.havocHeap(s, id.V)
			}
			return
		}
	case ESel:
		base := env.eval(n.X)
		st, ref, ok := env.structOf(base)
		if ok {
			owner := derefType(base.t)
			for i := 0; i < st.NumFields(); i++ {
				if st.Field(i).Name() == n.Name {
					c.storeField(s, ref, owner, i, c.freshValue(s, st.Field(i).Type(), "hvfield"))
					return
				}
			}
			key := shortTypeKey(owner) + "." + n.Name
			if gf, ok := c.eng.contracts.ghosts[key]; ok {
				gt, _ := parseGhostType(gf.Type)
				hn := "G|" + key
				h := c.getHeap(s, hn, ArrSort(SInt, sortOfGhost(gt)))
				c.setHeap(s, hn, Store(h, ref, c.freshConst("hvghost", sortOfGhost(gt))))
				return
			}
		}
	case EUnary:
		if n.Op == "*" {
			v := env.eval(n.X)
			if pt, ok := v.t.Underlying().(*types.Pointer); ok {
				c.storeAt(s, v.v.(Sc).T, pt.Elem(), c.freshValue(s, pt.Elem(), "hvcell"))
				return
			}
		}
	}
	c.unsupported("modifies target " + m.exprString())
}

func (c *Ctx) execDefer(s *State, x *ssa.Defer) {
	d := deferred{call: &x.Call, pos: posOf(c.eng.prog, x)}
	if x.Call.IsInvoke() {
		d.fnVal = c.val(s, x.Call.Value)
	} else if _, ok := x.Call.Value.(*ssa.Builtin); !ok {
		d.fnVal = c.val(s, x.Call.Value)
	}
	for _, a := range x.Call.Args {
		d.args = append(d.args, c.val(s, a))
	}
	fr := s.top()
	fr.defers = append(fr.defers, d)
}

// deferInstr wraps a deferred call so that it can be executed like a Call.
func (c *Ctx) execRunDefers(s *State, x *ssa.RunDefers, out *[]retPath) []*State {
	states := []*State{s}
	fr := s.top()
	n := len(fr.defers)
	for i := n - 1; i >= 0; i-- {
		var nextStates []*State
		for _, st := range states {
			if st.dead {
				continue
			}
			d := st.top().defers[i]
			forks := c.execDeferred(st, x, d, out)
			nextStates = append(nextStates, st)
			nextStates = append(nextStates, forks...)
		}
		states = nextStates
	}
	for _, st := range states {
		if len(st.top().defers) >= n {
			st.top().defers = st.top().defers[:0]
		}
	}
	var forks []*State
	for _, st := range states {
		if st != s && !st.dead {
			forks = append(forks, st)
		}
	}
	return forks
}

func (c *Ctx) execDeferred(s *State, at ssa.Instruction, d deferred, out *[]retPath) []*State {
	cc := d.call
	// temporarily bind the deferred call's operand values (they were evaluated at defer time)
	fr := s.top()
	saved := map[ssa.Value]Value{}
	bind := func(v ssa.Value, x Value) {
		if x == nil {
			return
		}
		if old, ok := fr.vals[v]; ok {
			saved[v] = old
		}
		fr.vals[v] = x
	}
	if d.fnVal != nil {
		if _, isFn := cc.Value.(*ssa.Function); !isFn {
			bind(cc.Value, d.fnVal)
		}
	}
	for i, a := range cc.Args {
		if _, isConst := a.(*ssa.Const); !isConst {
			bind(a, d.args[i])
		}
	}
	forks := c.execCall(s, at, cc, nil, out)
	return forks
}

func (c *Ctx) execGo(s *State, x *ssa.Go) {
	name := calleeName(&x.Call)
	callee := x.Call.StaticCallee()
	if callee == nil {
		if sc, ok := c.val(s, x.Call.Value).(Sc); ok {
			if ci, ok := c.eng.closures[sc.T.S]; ok {
				callee = ci.fn
				name = qualFnName(callee)
			}
		}
	}
	var args []Value
	for _, a := range x.Call.Args {
		args = append(args, c.val(s, a))
	}
	s.seq++
	gev := Event{Name: "go:" + name, Args: args, PC: len(s.pc), Pos: posOf(c.eng.prog, x), Seq: s.seq}
	for _, a := range x.Call.Args {
		gev.ArgT = append(gev.ArgT, a.Type())
	}
	if sc, ok := c.val(s, x.Call.Value).(Sc); ok {
		if ci, ok := c.eng.closures[sc.T.S]; ok {
			gev.addCaptured(ci)
		}
	}
	// closures (bound methods) handed to the goroutine: what they captured is used by the event too
	for _, a := range args {
		if sc, ok := a.(Sc); ok {
			if ci, ok := c.eng.closures[sc.T.S]; ok {
				gev.addCaptured(ci)
			}
		}
	}
	if x.Call.IsInvoke() {
		gev.Recv = c.val(s, x.Call.Value)
		gev.RecvT = x.Call.Value.Type()
	}
	s.trace = append(s.trace, gev)
	if fc := c.contractFor(name); fc != nil && callee != nil && c.inContext[fc.Key] && len(callee.Blocks) > 0 && c.scout == 0 {
		// the goroutine's own rules, decided with the bindings it is spawned with: it starts from the
		// spawner's knowledge about values, but from an arbitrary later shared state
		s2 := s.clone()
		for k := range s2.heap {
			delete(s2.heap, k)
		}
		s2.later = true
		s2.locks = nil
		s2.atLock, s2.atUnlock = nil, nil
		var binds []Value
		if sc, ok := c.val(s, x.Call.Value).(Sc); ok {
			if ci, ok := c.eng.closures[sc.T.S]; ok {
				binds = ci.binds
			}
		}
		// captured variables that are assigned exactly once (at their declaration) keep their value
		if mc, ok := x.Call.Value.(*ssa.MakeClosure); ok {
			for i, bv := range mc.Bindings {
				al, ok := bv.(*ssa.Alloc)
				if !ok || i >= len(binds) || cellStores(al, 0) != 1 {
					continue
				}
				if sc, ok := binds[i].(Sc); ok {
					et := al.Type().Underlying().(*types.Pointer).Elem()
					saved := c.written
					c.written = nil
					c.storeAt(s2, sc.T, et, c.loadAt(s, sc.T, et))
					c.written = saved
				}
			}
		}
		env := c.callEnv(s2, fc, callee, &x.Call, nil, args)
		c.bindFreeVars(env, callee, binds)
		env.old = s2.snapshot()
		for _, rq := range fc.Requires {
			g := env.evalRequires(rq.Expr, callee)
			env.errs = nil
			s2.assume(g)
		}
		ts := len(s2.trace)
		nframes := len(s2.frames)
		c.depth++
		rets := c.runFunction(s2, callee, args, binds)
		c.depth--
		for _, rp := range rets {
			if len(rp.s.frames) > nframes && !rp.s.dead {
				t0 := ts
				if t0 > len(rp.s.trace) {
					t0 = len(rp.s.trace)
				}
				c.checkReturnFrame(rp, fc, callee, args, rp.s.frames[nframes], rp.s.trace[t0:], true)
			}
		}
	}
	// the spawned function's precondition must hold at the go statement
	if fc := c.contractFor(name); fc != nil && callee != nil {
		env := c.callEnv(s, fc, callee, &x.Call, nil, args)
		env.old = s.snapshot()
		// bind free variables of the closure by name (cells)
		if sc, ok := c.val(s, x.Call.Value).(Sc); ok {
			if ci, ok := c.eng.closures[sc.T.S]; ok {
				c.bindFreeVars(env, callee, ci.binds)
			}
		}
		for i, rq := range fc.Requires {
			g := env.evalRequires(rq.Expr, callee)
			c.reportEvalErrors(env, fc, rq.Src)
			nm := fmt.Sprintf("%s/requires#%d:go:%s[%d]", fnKey(x.Parent()), c.ordinal("requires", x), shortName(fc.Key), i+1)
			props := rq.Props
			if len(props) == 0 {
				props = fc.Props
			}
			c.oblige(s, "requires", nm, g, posOf(c.eng.prog, x), "precondition of spawned "+fc.Key+": "+rq.Src, props)
		}
	}
}

func (c *Ctx) execBuiltin(s *State, in ssa.Instruction, b *ssa.Builtin, cc *ssa.CallCommon, res ssa.Value) {
	pos := posOf(c.eng.prog, in)
	var args []Value
	for _, a := range cc.Args {
		args = append(args, c.val(s, a))
	}
	set := func(v Value) {
		if res != nil {
			c.setVal(s, res, v)
		}
	}
	switch b.Name() {
	case "len":
		switch x := args[0].(type) {
		case Sl:
			set(Sc{T: x.Len})
		case Sc:
			if x.T.Sort == SStr {
				set(Sc{T: StrLen(c.d, x.T)})
			} else if mt, ok := cc.Args[0].Type().Underlying().(*types.Map); ok {
				set(Sc{T: c.mapLen(s, x.T, mt)})
			} else if _, ok := cc.Args[0].Type().Underlying().(*types.Chan); ok {
				v := c.freshConst("chanlen", SInt)
				s.assume(Ge(v, IntLit(0)))
				set(Sc{T: v})
			} else {
				c.unsupported("len of " + cc.Args[0].Type().String())
				set(c.freshValue(s, types.Typ[types.Int], "len"))
			}
		case Ar:
			set(Sc{T: IntLit(x.N)})
		default:
			c.unsupported("len")
			set(c.freshValue(s, types.Typ[types.Int], "len"))
		}
	case "cap":
		if x, ok := args[0].(Sl); ok {
			set(Sc{T: x.Cap})
		} else {
			set(c.freshValue(s, types.Typ[types.Int], "cap"))
		}
	case "copy":
		dst, ok1 := args[0].(Sl)
		var srcLen Term
		var srcSl *Sl
		switch x := args[1].(type) {
		case Sl:
			srcLen = x.Len
			srcSl = &x
		case Sc:
			srcLen = StrLen(c.d, x.T)
		}
		if !ok1 || srcLen.S == "" {
			c.unsupported("copy")
			set(c.freshValue(s, types.Typ[types.Int], "copy"))
			return
		}
		s.seq++
		s.trace = append(s.trace, Event{Name: "copy", Args: args, ArgT: []types.Type{cc.Args[0].Type(), cc.Args[1].Type()}, PC: len(s.pc), Pos: pos, Seq: s.seq})
		n := Ite(Le(dst.Len, srcLen), dst.Len, srcLen)
		nc := c.freshConst("copyn", SInt)
		s.assume(Eq(nc, n))
		// element contents: dst[0:n] = src[0:n]; modelled by a fresh inner array constrained pointwise
		et := cc.Args[0].Type().Underlying().(*types.Slice).Elem()
		for _, cp := range compsOf(et) {
			name := "Elem|" + typeKey(et) + cp.Suffix
			h := c.getHeap(s, name, ArrSort(SInt, ArrSort(SInt, cp.Sort)))
			oldInner := Select(h, dst.Arr)
			newInner := c.freshConst("copied", ArrSort(SInt, cp.Sort))
			c.fresh++
			j := fmt.Sprintf("j!%d", c.fresh)
			var srcElem string
			if srcSl != nil {
				srcElem = fmt.Sprintf("(select %s (+ %s (- %s %s)))", Select(h, srcSl.Arr).S, srcSl.Off.S, j, dst.Off.S)
			} else {
				srcElem = fmt.Sprintf("(strbyte %s (- %s %s))", args[1].(Sc).T.S, j, dst.Off.S)
				c.d.Fun("strbyte", []Sort{SStr, SInt}, SBV8)
			}
			ax := fmt.Sprintf("(forall ((%s Int)) (= (select %s %s) (ite (and (<= %s %s) (< %s (+ %s %s))) %s (select %s %s))))",
				j, newInner.S, j, dst.Off.S, j, j, dst.Off.S, nc.S, srcElem, oldInner.S, j)
			s.assume(Term{ax, SBool})
			c.setHeap(s, name, Store(h, dst.Arr, newInner))
		}
		set(Sc{T: nc})
	case "append":
		sl, ok := args[0].(Sl)
		if !ok {
			c.unsupported("append")
			set(c.freshValue(s, cc.Args[0].Type(), "append"))
			return
		}
		// result: fresh slice whose length is len(a)+len(b); contents not modelled except that
		// the old prefix is preserved when a single element is appended
		var addLen Term
		switch y := args[1].(type) {
		case Sl:
			addLen = y.Len
		case Sc:
			addLen = StrLen(c.d, y.T)
		default:
			addLen = IntLit(1)
		}
		r := c.freshValue(s, cc.Args[0].Type(), "append").(Sl)
		s.assume(Eq(r.Len, Add(sl.Len, addLen)))
		set(r)
	case "delete":
		m := args[0].(Sc)
		mt := cc.Args[0].Type().Underlying().(*types.Map)
		c.mapDelete(s, m.T, mt, args[1])
	case "close":
		ch := args[0].(Sc).T
		h := c.getHeap(s, "ChanClosed", ArrSort(SInt, SBool))
		nm := fmt.Sprintf("%s/safe:close@%s#%d", fnKey(in.Parent()), otag(in), c.ordinal("call", in))
		c.oblige(s, "safe", nm, And(Neq(ch, IntLit(0)), Not(Select(h, ch))), pos, "close of nil or closed channel", []string{"C18"})
		s.assume(And(Neq(ch, IntLit(0)), Not(Select(h, ch))))
		c.setHeap(s, "ChanClosed", Store(h, ch, True))
		s.seq++
		s.trace = append(s.trace, Event{Name: "close", Args: args, PC: len(s.pc), Pos: pos, Seq: s.seq})
	case "recover":
		// on non-panicking paths recover() returns nil
		set(If{IntLit(0), IntLit(0)})
	case "print", "println":
	case "min", "max":
		a, b2 := args[0].(Sc).T, args[1].(Sc).T
		if b.Name() == "min" {
			set(Sc{T: Ite(Le(a, b2), a, b2)})
		} else {
			set(Sc{T: Ite(Ge(a, b2), a, b2)})
		}
	default:
		c.unsupported("builtin " + b.Name())
		if res != nil {
			set(c.freshValue(s, res.Type(), "builtin"))
		}
	}
}

// execOnceDo: fork on whether the Once has already fired.
func (c *Ctx) execOnceDo(s *State, in ssa.Instruction, cc *ssa.CallCommon, args []Value, out *[]retPath) []*State {
	pos := posOf(c.eng.prog, in)
	once := args[0].(Sc).T
	h := c.getHeap(s, "OnceDone", ArrSort(SInt, SBool))
	done := Select(h, once)
	// path A: already done, nothing happens
	sa := s.clone()
	sa.assume(done)
	sa.seq++
	sa.trace = append(sa.trace, Event{Name: "once.Do:skipped", Args: args, PC: len(sa.pc), Pos: pos, Seq: sa.seq})
	// path B (continues on s): not done: mark and run f
	s.assume(Not(done))
	c.setHeap(s, "OnceDone", Store(h, once, True))
	s.seq++
	s.trace = append(s.trace, Event{Name: "once.Do:run", Args: args, PC: len(s.pc), Pos: pos, Seq: s.seq})
	forks := []*State{sa}
	fv, ok := args[1].(Sc)
	if !ok {
		return forks
	}
	ci, ok := c.eng.closures[fv.T.S]
	if !ok {
		c.unsupported("Once.Do with an unknown function value in " + fnKey(in.Parent()))
		return forks
	}
	nframes := len(s.frames)
	c.depth++
	rets := c.runFunction(s, ci.fn, nil, ci.binds)
	c.depth--
	survived := false
	for _, rp := range rets {
		rp.s.frames = rp.s.frames[:nframes]
		if rp.s == s {
			survived = true
		} else {
			forks = append(forks, rp.s)
		}
	}
	if !survived {
		s.dead = true
		if len(s.frames) > nframes {
			s.frames = s.frames[:nframes]
		}
	}
	return forks
}

// bindFreeVars makes the captured variables of a closure visible by name in a contract
// environment: each is a cell that is dereferenced when the name is used.
func (c *Ctx) bindFreeVars(env *Env, callee *ssa.Function, binds []Value) {
	if callee == nil {
		return
	}
	for i, fv := range callee.FreeVars {
		if i < len(binds) {
			if env.addrVars == nil {
				env.addrVars = map[string]tv{}
			}
			env.addrVars[fv.Name()] = tv{binds[i], fv.Type()}
		}
	}
	// captured variables renamed since the baseline are also reachable under their old names
	for o, n := range c.eng.localAlias[qualFnName(callee)] {
		if v, ok := env.addrVars[n]; ok {
			if _, has := env.addrVars[o]; !has {
				env.addrVars[o] = v
				c.eng.aliasUsed[c.key] = true
			}
		}
	}
}

// benignOpaque: un-contracted callees whose results only feed log records and error texts; branching
// on them (e.g. "is debug logging enabled") does not make a refutation depend on unmodelled behaviour.
func benignOpaque(name string) bool {
	for _, p := range []string{"slog.", "log.", "fmt.Sprint", "fmt.Errorf", "errors.New", "fmt.Fprint"} {
		if strings.HasPrefix(shortName(name), p) || strings.HasPrefix(name, p) {
			return true
		}
	}
	return false
}

// cellStores counts the assignments to a local variable cell, in the function that declares it and in
// every closure that captures it.
func cellStores(v ssa.Value, depth int) int {
	if depth > 4 || v.Referrers() == nil {
		return 99
	}
	n := 0
	for _, r := range *v.Referrers() {
		switch x := r.(type) {
		case *ssa.Store:
			if x.Addr == v {
				n++
			} else {
				return 99 // the address itself is stored somewhere
			}
		case *ssa.MakeClosure:
			fn, _ := x.Fn.(*ssa.Function)
			for i, b := range x.Bindings {
				if b == v && fn != nil && i < len(fn.FreeVars) {
					n += cellStores(fn.FreeVars[i], depth+1)
				}
			}
		case *ssa.UnOp, *ssa.DebugRef, *ssa.FieldAddr, *ssa.IndexAddr:
			// loads and accesses below the cell (field stores are not tracked: be conservative)
			if fa, ok := r.(*ssa.FieldAddr); ok {
				_ = fa
				return 99
			}
			if ia, ok := r.(*ssa.IndexAddr); ok {
				_ = ia
				return 99
			}
		default:
			return 99
		}
	}
	return n
}
