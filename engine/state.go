package main

import (
	"fmt"
	"go/types"
	"regexp"
	"sort"
	"strconv"
	"strings"

	"golang.org/x/tools/go/ssa"
)

// Event is one entry of a path's effect trace (calls declared as events,
// channel operations, go statements, lock operations).
type Event struct {
	Name string // e.g. "TCPConnMetrics.AddClosed", "(*natmap).del", "close", "go:..."
	Recv Value  // receiver (for invokes / methods), may be nil
	Args []Value
	Res  Value
	ArgT []types.Type
	ResT types.Type
	RecvT types.Type
	PC   int // length of the path condition when the event happened
	Pos  string
	Seq  int
	Extra []Value // values captured by closures passed to / spawned by the event (for uses())
	ExtraT []types.Type
	GW    int // guarded writes on the path so far (lock / unlock events)
}

type LockHeld struct {
	Key   string // "pkg.T.field"
	Base  Term   // object owning the mutex
	Write bool
	Level int
}

type deferred struct {
	call  *ssa.CallCommon
	args  []Value // evaluated at defer time (incl. receiver / closure)
	fnVal Value
	pos   string
}

// frame is one activation (the function being verified, or an inlined callee).
type frame struct {
	alias map[string]string // contract parameter name -> source parameter name (positional `params` of the contract)
	entryClock int // allocation clock at entry (objects born later are local to this activation)
	fn     *ssa.Function
	vals   map[ssa.Value]Value
	defers []deferred
	locals map[string]Value // source-level names -> current value / address (from DebugRef)
	localIsAddr map[string]bool
	// snapshot of the state at entry of this frame (for old())
	entry *Snapshot
	// loop bookkeeping: headers currently "open" on this path
	openLoops map[*ssa.BasicBlock]bool
	rangeVisited map[*ssa.Range]Term // ghost visited-set per map range
	rangeMap map[*ssa.Range]Value
	namedResults []Value
	loopTraceStart map[*ssa.BasicBlock]int
	unrollCount map[*ssa.BasicBlock]int
}

// Snapshot captures the heap at a point, for old() / atlock().
type Snapshot struct {
	heap map[string]Term
}

// State is one symbolic path.
type State struct {
	pc     []Term
	heap   map[string]Term
	clock  int
	locks  []LockHeld
	trace  []Event
	frames []*frame
	atLock *Snapshot
	seq    int
	dead   bool // path ended (panic proven unreachable, infeasible, ...)
	ghostNote []string
	opqDep string // the path branched on the unconstrained result of this un-contracted call
	later    bool      // the path continues from an arbitrary later shared state (goroutine verified in context): untouched heaps are unknown, not initial
	atUnlock *Snapshot // state when the first critical section of the path ended (linearisation point of atomic operations)
	gwrites  int       // writes to lock-guarded fields so far on this path
}

func (s *State) top() *frame { return s.frames[len(s.frames)-1] }

func (s *State) clone() *State {
	n := &State{
		pc:    append([]Term(nil), s.pc...),
		heap:  make(map[string]Term, len(s.heap)),
		clock: s.clock,
		locks: append([]LockHeld(nil), s.locks...),
		trace: append([]Event(nil), s.trace...),
		atLock: s.atLock,
		seq:   s.seq,
		opqDep: s.opqDep,
		atUnlock: s.atUnlock,
		later: s.later,
		gwrites: s.gwrites,
	}
	for k, v := range s.heap {
		n.heap[k] = v
	}
	for _, f := range s.frames {
		nf := &frame{fn: f.fn, vals: make(map[ssa.Value]Value, len(f.vals)), defers: append([]deferred(nil), f.defers...),
			locals: make(map[string]Value, len(f.locals)), localIsAddr: make(map[string]bool, len(f.localIsAddr)), entry: f.entry, entryClock: f.entryClock, alias: f.alias,
			openLoops: make(map[*ssa.BasicBlock]bool, len(f.openLoops)),
			rangeVisited: make(map[*ssa.Range]Term, len(f.rangeVisited)), rangeMap: make(map[*ssa.Range]Value, len(f.rangeMap)),
			namedResults: f.namedResults, loopTraceStart: make(map[*ssa.BasicBlock]int, len(f.loopTraceStart))}
		for k, v := range f.loopTraceStart {
			nf.loopTraceStart[k] = v
		}
		if f.unrollCount != nil {
			nf.unrollCount = make(map[*ssa.BasicBlock]int, len(f.unrollCount))
			for k, v := range f.unrollCount {
				nf.unrollCount[k] = v
			}
		}
		for k, v := range f.vals {
			nf.vals[k] = v
		}
		for k, v := range f.locals {
			nf.locals[k] = v
		}
		for k, v := range f.localIsAddr {
			nf.localIsAddr[k] = v
		}
		for k, v := range f.openLoops {
			nf.openLoops[k] = v
		}
		for k, v := range f.rangeVisited {
			nf.rangeVisited[k] = v
		}
		for k, v := range f.rangeMap {
			nf.rangeMap[k] = v
		}
		n.frames = append(n.frames, nf)
	}
	return n
}

func (s *State) snapshot() *Snapshot {
	h := make(map[string]Term, len(s.heap))
	for k, v := range s.heap {
		h[k] = v
	}
	return &Snapshot{heap: h}
}

func (s *State) assume(t Term) {
	if t.S == "true" {
		return
	}
	if t.S == "false" {
		s.dead = true
	}
	s.pc = append(s.pc, t)
}

// Obligation is one proof goal: under Assumptions, Goal must hold.
type Obligation struct {
	Name   string
	Fn     string
	Props  []string
	Kind   string
	Assume []Term
	Goal   Term
	Pos    string
	Note   string
	// filled by the solver stage
	Verdict string // "unsat" (discharged), "sat", "unknown", "syntactic", "structural-fail"
	Backend string
	Seconds float64
	Model   string
	SMTSize int
	decls   *Decls
	Witness []WitnessTerm
	Values  map[string]string // witness values from the model (sat verdicts)
	OpqDep  string            // the path branched on (or the goal mentions) the unconstrained result of this un-contracted call
}

// WitnessTerm names an input-describing term whose model value is extracted for replay.
type WitnessTerm struct {
	Name string
	T    Term
}

type heapDecl struct {
	Name string
	Sort Sort
}

// Ctx is the context of verifying one function.
type Ctx struct {
	eng   *Engine
	d     *Decls
	fresh int
	obls  []*Obligation
	ord   map[string]int // ordinal counters for obligation names
	ordOf map[string]int // stable ordinal per (kind, instruction)
	fn    *ssa.Function
	key   string
	scout int // >0: effects discovery, obligations suppressed
	written map[string]bool // heaps written (scout bookkeeping)
	writtenAt map[string]map[string]Term // heap -> stable base terms written (scout bookkeeping)
	scoutFresh int // value of the fresh counter when the current scout run started
	paths int
	notes []string
	opaque map[string]bool
	assumedUsed map[string]bool
	inlined map[string]bool
	undecided []string
	props []string
	depth int
	maxPaths int
	scoutBody map[*ssa.BasicBlock]bool
	scoutDepth int
	resumeHeader *ssa.BasicBlock
	pendingOnce *onceCall
	localRefs []string // refs allocated during the current effects-discovery run
	witness   []WitnessTerm
	paramMode bool
	entryArgs map[int]Value
	inContext map[string]bool // contract keys of closures to be inlined and checked in the context of this function
}

func (c *Ctx) freshConst(hint string, s Sort) Term {
	c.fresh++
	return c.d.Const(fmt.Sprintf("%s!%d", hint, c.fresh), s)
}

// heapInit returns (and declares) the initial symbolic contents of a heap.
func (c *Ctx) heapInit(name string, sort Sort) Term {
	return c.d.Const("H0|"+name, sort)
}

func (c *Ctx) getHeap(s *State, name string, sort Sort) Term {
	if t, ok := s.heap[name]; ok {
		return t
	}
	t := c.heapInit(name, sort)
	if s.later {
		t = c.freshConst("HL|"+name, sort)
	}
	s.heap[name] = t
	c.eng.heapSorts[name] = sort
	return t
}

// isLocalRef: the object was allocated during the current effects-discovery run, so writes
// to it are invisible to the caller / to earlier iterations.
func (c *Ctx) isLocalRef(base Term) bool {
	if c.written == nil {
		return false
	}
	for _, r := range c.localRefs {
		if base.S == r || strings.Contains(base.S, " "+r+")") || strings.Contains(base.S, " "+r+" ") {
			return true
		}
	}
	return false
}

func (c *Ctx) setHeapAt(s *State, name string, t Term, base Term) {
	if c.written != nil {
		saved := c.written
		c.written = nil
		c.setHeap(s, name, t)
		c.written = saved
		if c.isLocalRef(base) {
			return
		}
		if c.stableBase(base) {
			if c.writtenAt == nil {
				c.writtenAt = map[string]map[string]Term{}
			}
			if c.writtenAt[name] == nil {
				c.writtenAt[name] = map[string]Term{}
			}
			c.writtenAt[name][base.S] = base
			return
		}
		c.written[name] = true
		return
	}
	c.setHeap(s, name, t)
}

var freshNumRe = regexp.MustCompile(`!(\d+)`)

// stableBase: every engine-generated symbol in the term was created before the current
// effects-discovery run started, so the term denotes the same object for the caller.
func (c *Ctx) stableBase(base Term) bool {
	if strings.HasPrefix(base.S, "(select") || strings.Contains(base.S, "(ite") {
		return false
	}
	for _, m := range freshNumRe.FindAllStringSubmatch(base.S, -1) {
		n, _ := strconv.Atoi(m[1])
		if n > c.scoutFresh {
			return false
		}
	}
	return true
}

func (c *Ctx) setHeap(s *State, name string, t Term) {
	// name the new heap value to keep terms small
	n := c.freshConst("h|"+name, t.Sort)
	s.assume(Eq(n, t))
	s.heap[name] = n
	c.eng.heapSorts[name] = t.Sort
	if c.written != nil {
		c.written[name] = true
	}
}

func (c *Ctx) havocHeap(s *State, name string) {
	sort, ok := c.eng.heapSorts[name]
	if !ok {
		return
	}
	if name == "Clock" {
		// the clock only moves forward
		old := c.getHeap(s, "Clock", SInt)
		nv := c.freshConst("hv|Clock", SInt)
		s.assume(Ge(nv, old))
		s.heap[name] = nv
		if c.written != nil {
			c.written[name] = true
		}
		return
	}
	s.heap[name] = c.freshConst("hv|"+name, sort)
	if c.written != nil {
		c.written[name] = true
	}
}

// ---- heap access by kind ----

func namedOf(t types.Type) string {
	if p, ok := t.(*types.Pointer); ok {
		t = p.Elem()
	}
	return typeKey(t)
}

func fieldHeapName(structT types.Type, field int) string {
	st := structT.Underlying().(*types.Struct)
	return "F|" + namedOf(structT) + "." + st.Field(field).Name()
}

// subRef returns the reference of a struct-typed (or array-typed) field embedded by value.
func (c *Ctx) subRef(s *State, base Term, structT types.Type, field int) Term {
	name := "sub|" + namedOf(structT) + "." + structT.Underlying().(*types.Struct).Field(field).Name()
	t := c.d.Apply(name, []Term{base}, SInt)
	inv := c.d.Fun("inv"+name, []Sort{SInt}, SInt)
	c.d.Fun("birth", []Sort{SInt}, SInt)
	c.d.Fun("subtag", []Sort{SInt}, SInt)
	// instance axioms: injective, non-null, same birth as parent, and distinct from the sub-objects
	// of every other field (subtag is a per-field constant)
	s.assume(Term{fmt.Sprintf("(and (= (%s %s) %s) (not (= %s 0)) (= (birth %s) (birth %s)) (= (subtag %s) %d))", inv, t.S, base.S, t.S, t.S, base.S, t.S, c.eng.globalID(name)), SBool})
	return t
}

func (c *Ctx) elemRef(s *State, arr, idx Term, elemT types.Type) Term {
	name := "elem|" + typeKey(elemT)
	t := c.d.Apply(name, []Term{arr, idx}, SInt)
	inv1 := c.d.Fun("inv1"+name, []Sort{SInt}, SInt)
	inv2 := c.d.Fun("inv2"+name, []Sort{SInt}, SInt)
	s.assume(Term{fmt.Sprintf("(and (= (%s %s) %s) (= (%s %s) %s) (not (= %s 0)))", inv1, t.S, arr.S, inv2, t.S, idx.S, t.S), SBool})
	return t
}

// loadAt loads a value of type t stored at the object/cell ref `ref`.
// For struct types ref is the struct object; otherwise a cell.
func (c *Ctx) loadAt(s *State, ref Term, t types.Type) Value {
	if st, ok := isStructType(t); ok {
		v := St{Typ: t}
		for i := 0; i < st.NumFields(); i++ {
			v.F = append(v.F, c.loadField(s, ref, t, i))
		}
		return v
	}
	if at, ok := t.Underlying().(*types.Array); ok {
		cs := compsOf(at.Elem())
		if len(cs) != 1 {
			return Ar{Elems: c.freshConst("arr", ArrSort(SInt, SInt)), N: at.Len(), ElemT: at.Elem()}
		}
		h := c.getHeap(s, "Elem|"+typeKey(at.Elem()), ArrSort(SInt, ArrSort(SInt, cs[0].Sort)))
		return Ar{Elems: Select(h, ref), N: at.Len(), ElemT: at.Elem()}
	}
	cs := compsOf(t)
	if cs == nil {
		c.unsupported("load of type " + t.String())
		return Sc{T: c.freshConst("unk", SInt)}
	}
	var ts []Term
	for _, cp := range cs {
		h := c.getHeap(s, "Cell|"+typeKey(t)+cp.Suffix, ArrSort(SInt, cp.Sort))
		ts = append(ts, Select(h, ref))
	}
	v := unflatten(t, ts)
	c.assumeTypeFacts(s, v, t)
	return v
}

func (c *Ctx) storeAt(s *State, ref Term, t types.Type, v Value) {
	if st, ok := isStructType(t); ok {
		sv, ok := v.(St)
		if !ok {
			c.unsupported(fmt.Sprintf("store struct from %T", v))
			return
		}
		for i := 0; i < st.NumFields(); i++ {
			c.storeField(s, ref, t, i, sv.F[i])
		}
		return
	}
	if at, ok := t.Underlying().(*types.Array); ok {
		av, ok := v.(Ar)
		if !ok {
			c.unsupported("store array")
			return
		}
		cs := compsOf(at.Elem())
		if len(cs) != 1 {
			// composite elements (e.g. the [n]any of a variadic call): contents left unconstrained
			return
		}
		name := "Elem|" + typeKey(at.Elem())
		h := c.getHeap(s, name, ArrSort(SInt, ArrSort(SInt, cs[0].Sort)))
		c.setHeapAt(s, name, Store(h, ref, av.Elems), ref)
		return
	}
	cs := compsOf(t)
	if cs == nil {
		c.unsupported("store of type " + t.String())
		return
	}
	ts := flatten(v)
	for i, cp := range cs {
		name := "Cell|" + typeKey(t) + cp.Suffix
		h := c.getHeap(s, name, ArrSort(SInt, cp.Sort))
		c.setHeapAt(s, name, Store(h, ref, ts[i]), ref)
	}
}

// escaping reports whether the address of (structT, field) is taken and escapes somewhere.
func (c *Ctx) fieldEscapes(structT types.Type, field int) bool {
	return c.eng.escFields[fieldHeapName(structT, field)]
}

func (c *Ctx) loadField(s *State, base Term, structT types.Type, field int) Value {
	st := structT.Underlying().(*types.Struct)
	ft := st.Field(field).Type()
	if _, ok := isStructType(ft); ok {
		return c.loadAt(s, c.subRef(s, base, structT, field), ft)
	}
	if _, ok := ft.Underlying().(*types.Array); ok {
		return c.loadAt(s, c.subRef(s, base, structT, field), ft)
	}
	if c.fieldEscapes(structT, field) {
		return c.loadAt(s, c.subRef(s, base, structT, field), ft)
	}
	cs := compsOf(ft)
	if cs == nil {
		c.unsupported("field type " + ft.String())
		return Sc{T: c.freshConst("unk", SInt)}
	}
	var ts []Term
	hn := fieldHeapName(structT, field)
	for _, cp := range cs {
		h := c.getHeap(s, hn+cp.Suffix, ArrSort(SInt, cp.Sort))
		ts = append(ts, Select(h, base))
	}
	v := unflatten(ft, ts)
	c.assumeTypeFacts(s, v, ft)
	return v
}

func (c *Ctx) storeField(s *State, base Term, structT types.Type, field int, v Value) {
	st := structT.Underlying().(*types.Struct)
	ft := st.Field(field).Type()
	if sc, ok := v.(Sc); ok && c.scout == 0 {
		if ci, ok := c.eng.closures[sc.T.S]; ok {
			fieldKey := shortTypeKey(structT) + "." + st.Field(field).Name()
			if ffc := c.eng.contracts.funcs[fieldKey]; ffc != nil && ffc.AcquiresLevel > 0 {
				cfc := c.eng.contracts.funcs[qualFnName(ci.fn)]
				lvl := 0
				if cfc != nil {
					lvl = cfc.AcquiresLevel
				}
				if cfc == nil || cfc.Detached {
					// a closure without a contract of its own (new or restructured code): its lock behaviour is unknown
					c.unsupported(fmt.Sprintf("closure %s stored in %s has no contract: the lock order of what it calls is not decided", qualFnName(ci.fn), fieldKey))
				} else {
					c.structural(cfc != nil && (lvl == 0 || lvl >= ffc.AcquiresLevel) && cfc.AcquiresLevelDeclared, "locklevel",
					fmt.Sprintf("%s/closure-into:%s:%s", c.key, fieldKey, qualFnName(ci.fn)), "",
					fmt.Sprintf("closure %s (acquires-level %d) stored in %s whose contract allows locks of level >= %d", qualFnName(ci.fn), lvl, fieldKey, ffc.AcquiresLevel), []string{"C13"})
				}
			}
		}
	}
	if _, ok := isStructType(ft); ok {
		c.storeAt(s, c.subRef(s, base, structT, field), ft, v)
		return
	}
	if _, ok := ft.Underlying().(*types.Array); ok {
		c.storeAt(s, c.subRef(s, base, structT, field), ft, v)
		return
	}
	if c.fieldEscapes(structT, field) {
		c.storeAt(s, c.subRef(s, base, structT, field), ft, v)
		return
	}
	cs := compsOf(ft)
	if cs == nil {
		c.unsupported("field type " + ft.String())
		return
	}
	ts := flatten(v)
	hn := fieldHeapName(structT, field)
	for i, cp := range cs {
		h := c.getHeap(s, hn+cp.Suffix, ArrSort(SInt, cp.Sort))
		c.setHeapAt(s, hn+cp.Suffix, Store(h, base, ts[i]), base)
	}
}

// element access: slices and arrays share Elem heaps: Elem|T : Ref -> (Int -> sigma)
func (c *Ctx) loadElem(s *State, arr, idx Term, elemT types.Type) Value {
	if _, ok := isStructType(elemT); ok {
		return c.loadAt(s, c.elemRef(s, arr, idx, elemT), elemT)
	}
	cs := compsOf(elemT)
	if cs == nil {
		c.unsupported("element type " + elemT.String())
		return Sc{T: c.freshConst("unk", SInt)}
	}
	var ts []Term
	for _, cp := range cs {
		h := c.getHeap(s, "Elem|"+typeKey(elemT)+cp.Suffix, ArrSort(SInt, ArrSort(SInt, cp.Sort)))
		ts = append(ts, Select(Select(h, arr), idx))
	}
	v := unflatten(elemT, ts)
	c.assumeTypeFacts(s, v, elemT)
	return v
}

func (c *Ctx) storeElem(s *State, arr, idx Term, elemT types.Type, v Value) {
	if _, ok := isStructType(elemT); ok {
		c.storeAt(s, c.elemRef(s, arr, idx, elemT), elemT, v)
		return
	}
	cs := compsOf(elemT)
	if cs == nil {
		c.unsupported("element type " + elemT.String())
		return
	}
	ts := flatten(v)
	for i, cp := range cs {
		name := "Elem|" + typeKey(elemT) + cp.Suffix
		h := c.getHeap(s, name, ArrSort(SInt, ArrSort(SInt, cp.Sort)))
		c.setHeapAt(s, name, Store(h, arr, Store(Select(h, arr), idx, ts[i])), arr)
	}
}

// assumeTypeFacts adds the type invariants of a freshly read / created value.
func (c *Ctx) assumeTypeFacts(s *State, v Value, t types.Type) {
	switch x := v.(type) {
	case Sc:
		if x.T.Sort == SInt {
			if lo, hi, ok := intRange(t); ok {
				if _, isLit := isIntLit(x.T); !isLit {
					s.assume(Term{fmt.Sprintf("(and (<= %s %s) (<= %s %s))", BigIntLit(lo).S, x.T.S, x.T.S, BigIntLit(hi).S), SBool})
				}
			} else if isRefType(t) {
				c.assumeBorn(s, x.T)
			} else if typeKey(t) == "time.Time" {
				s.assume(Ge(x.T, IntLit(0)))
			}
		} else if x.T.Sort == SStr {
			l := StrLen(c.d, x.T)
			s.assume(Term{fmt.Sprintf("(and (<= 0 %s) (<= %s 9223372036854775807))", l.S, l.S), SBool})
		}
	case Sl:
		s.assume(Term{fmt.Sprintf("(and (<= 0 %s) (<= 0 %s) (<= %s %s) (<= %s 9223372036854775807) (=> (= %s 0) (and (= %s 0) (= %s 0))))", x.Off.S, x.Len.S, x.Len.S, x.Cap.S, x.Cap.S, x.Arr.S, x.Len.S, x.Cap.S), SBool})
		c.assumeBorn(s, x.Arr)
	case If:
		c.assumeBorn(s, x.Val)
		s.assume(Ge(x.Typ, IntLit(0)))
	case St:
		if st, ok := isStructType(x.Typ); ok {
			for i, f := range x.F {
				c.assumeTypeFacts(s, f, st.Field(i).Type())
			}
		}
	}
}

func isRefType(t types.Type) bool {
	if _, ok := abstractSort(t); ok {
		return false
	}
	switch t.Underlying().(type) {
	case *types.Pointer, *types.Map, *types.Chan, *types.Signature:
		return true
	}
	return false
}

// assumeBorn: the reference existed no later than now (so it differs from later allocations).
func (c *Ctx) assumeBorn(s *State, r Term) {
	if _, ok := isIntLit(r); ok {
		return
	}
	c.d.Fun("birth", []Sort{SInt}, SInt)
	s.assume(Term{fmt.Sprintf("(<= (birth %s) %d)", r.S, s.clock), SBool})
}

// newRef allocates a fresh reference distinct from everything seen so far.
func (c *Ctx) newRef(s *State, hint string) Term {
	s.clock++
	r := c.freshConst(hint, SInt)
	c.d.Fun("birth", []Sort{SInt}, SInt)
	c.d.Fun("privateObj", []Sort{SInt}, SBool)
	// a freshly allocated object is private to the activation that allocated it (until it is shared,
	// which is not tracked: private(x) means "allocated here, or vouched for by the caller")
	s.assume(Term{fmt.Sprintf("(and (= (birth %s) %d) (not (= %s 0)) (privateObj %s))", r.S, s.clock, r.S, r.S), SBool})
	if c.written != nil {
		c.localRefs = append(c.localRefs, r.S)
	}
	// a fresh object is not stored in any map yet
	if c.scout == 0 {
		for _, name := range sortedKeys(s.heap) {
			if !strings.HasPrefix(name, "MapVal|") {
				continue
			}
			h := s.heap[name]
			if arrElemSort(h.Sort) == "" || arrElemSort(arrElemSort(h.Sort)) != SInt {
				continue
			}
			ks := arrIdxSort(arrElemSort(h.Sort))
			c.fresh++
			s.assume(Term{fmt.Sprintf("(forall ((fm!%d Int) (fk!%d %s)) (not (= (select (select %s fm!%d) fk!%d) %s)))", c.fresh, c.fresh, ks, h.S, c.fresh, c.fresh, r.S), SBool})
		}
	}
	return r
}

func (c *Ctx) unsupported(msg string) {
	for _, u := range c.undecided {
		if u == msg {
			return
		}
	}
	c.undecided = append(c.undecided, msg)
}

// freshValue makes an unconstrained value of a Go type (with its type facts).
func (c *Ctx) freshValue(s *State, t types.Type, hint string) Value {
	if tt, ok := t.(*types.Tuple); ok {
		var tu Tu
		for i := 0; i < tt.Len(); i++ {
			tu.E = append(tu.E, c.freshValue(s, tt.At(i).Type(), fmt.Sprintf("%s.%d", hint, i)))
		}
		return tu
	}
	if st, ok := isStructType(t); ok {
		v := St{Typ: t}
		for i := 0; i < st.NumFields(); i++ {
			v.F = append(v.F, c.freshValue(s, st.Field(i).Type(), hint+"."+st.Field(i).Name()))
		}
		return v
	}
	if at, ok := t.Underlying().(*types.Array); ok {
		cs := compsOf(at.Elem())
		es := SInt
		if len(cs) == 1 {
			es = cs[0].Sort
		}
		return Ar{Elems: c.freshConst(hint, ArrSort(SInt, es)), N: at.Len(), ElemT: at.Elem()}
	}
	cs := compsOf(t)
	if cs == nil {
		c.unsupported("fresh value of type " + t.String())
		return Sc{T: c.freshConst(hint, SInt)}
	}
	var ts []Term
	for _, cp := range cs {
		if c.paramMode && cp.Suffix == "#off" {
			ts = append(ts, IntLit(0))
			continue
		}
		ts = append(ts, c.freshConst(hint+cp.Suffix, cp.Sort))
	}
	v := unflatten(t, ts)
	c.assumeTypeFacts(s, v, t)
	return v
}

func (c *Ctx) zeroValue(t types.Type) Value {
	if tt, ok := t.(*types.Tuple); ok {
		var tu Tu
		for i := 0; i < tt.Len(); i++ {
			tu.E = append(tu.E, c.zeroValue(tt.At(i).Type()))
		}
		return tu
	}
	if st, ok := isStructType(t); ok {
		v := St{Typ: t}
		for i := 0; i < st.NumFields(); i++ {
			v.F = append(v.F, c.zeroValue(st.Field(i).Type()))
		}
		return v
	}
	if at, ok := t.Underlying().(*types.Array); ok {
		cs := compsOf(at.Elem())
		es := SInt
		if len(cs) == 1 {
			es = cs[0].Sort
		}
		z := zeroTerm(es, c.d)
		return Ar{Elems: Term{fmt.Sprintf("((as const %s) %s)", ArrSort(SInt, es), z.S), ArrSort(SInt, es)}, N: at.Len(), ElemT: at.Elem()}
	}
	cs := compsOf(t)
	if cs == nil {
		c.unsupported("zero value of type " + t.String())
		return Sc{T: IntLit(0)}
	}
	var ts []Term
	for _, cp := range cs {
		ts = append(ts, zeroTerm(cp.Sort, c.d))
	}
	return unflatten(t, ts)
}

// ---- obligations ----

func (c *Ctx) oblige(s *State, kind, name string, goal Term, pos, note string, props []string) {
	if c.scout > 0 || s.dead {
		return
	}
	if goal.S == "true" {
		// still counted: discharged syntactically
		c.obls = append(c.obls, &Obligation{Name: name, Fn: c.key, Kind: kind, Goal: goal, Pos: pos, Note: note, Props: props, Verdict: "syntactic", Backend: "syntactic", decls: c.d})
		return
	}
	dep := s.opqDep
	// a goal that mentions the result of an un-contracted call cannot be decided from what the engine knows
	// about that result -- except rules that are *about* such results and operands (trace rules speak of
	// $res / $arg explicitly) and confinement claims (an unknown result is not known to be private)
	if i := opqIndex(goal.S); i >= 0 && kind != "trace" && !strings.Contains(note, "private(") {
		dep = opqName(goal.S[i:])
	}
	c.obls = append(c.obls, &Obligation{Name: name, Fn: c.key, Kind: kind, Assume: append([]Term(nil), s.pc...), Goal: goal, Pos: pos, Note: note, Props: props, decls: c.d, Witness: c.witness, OpqDep: dep})
}

func (c *Ctx) structural(ok bool, kind, name, pos, note string, props []string) {
	if c.scout > 0 {
		return
	}
	o := &Obligation{Name: name, Fn: c.key, Kind: kind, Goal: BoolLit(ok), Pos: pos, Note: note, Props: props, decls: c.d}
	if ok {
		o.Verdict, o.Backend = "syntactic", "structural"
	} else {
		o.Verdict, o.Backend = "structural-fail", "structural"
	}
	c.obls = append(c.obls, o)
}

// ordinal gives a per-function ordinal for an instruction: its rank among the
// instructions of the same SSA kind in that function (block order). Obligation names
// are keyed by it, never by line.
func (c *Ctx) ordinal(kind string, instr ssa.Instruction) int {
	fn := instr.Parent()
	k := fnKey(fn)
	m := c.eng.ordinals[k]
	if m == nil {
		m = map[ssa.Instruction]int{}
		cnt := map[string]int{}
		for _, b := range fn.Blocks {
			for _, in := range b.Instrs {
				t := fmt.Sprintf("%T", in)
				cnt[t]++
				m[in] = cnt[t]
			}
		}
		c.eng.ordinals[k] = m
	}
	return m[instr]
}

// otag: short tag of the instruction kind, used in obligation names.
func otag(in ssa.Instruction) string {
	t := fmt.Sprintf("%T", in)
	return strings.TrimPrefix(t, "*ssa.")
}

func posOf(prog *ssa.Program, in ssa.Instruction) string {
	p := in.Pos()
	if !p.IsValid() {
		// fall back to any operand position / block
		if in.Parent() != nil && in.Parent().Pos().IsValid() {
			pp := prog.Fset.Position(in.Parent().Pos())
			return fmt.Sprintf("%s:%d(fn)", shortFile(pp.Filename), pp.Line)
		}
		return "?"
	}
	pp := prog.Fset.Position(p)
	return fmt.Sprintf("%s:%d", shortFile(pp.Filename), pp.Line)
}

func shortFile(f string) string {
	if i := strings.Index(f, "/repo/"); i >= 0 {
		return f[i+6:]
	}
	if i := strings.Index(f, "/pkg/mod/"); i >= 0 {
		return f[i+9:]
	}
	if i := strings.LastIndex(f, "/src/"); i >= 0 {
		return f[i+5:]
	}
	return f
}

func sortedBools(m map[string]bool) []string {
	var ks []string
	for k, v := range m {
		if v {
			ks = append(ks, k)
		}
	}
	sort.Strings(ks)
	return ks
}
