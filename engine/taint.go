package main

// Information-flow obligations for C20: no value derived from a client address reaches a
// metric name / label sink. Sources, sinks and declassifiers are declared in the contract
// files (`tainted ...`, `sink ...`, `declassify ...`). The analysis is a context-insensitive
// fixpoint over the SSA of *all* functions of the scanned packages (not only those under
// contract), field-sensitive for struct fields, base-sensitive for cells / arrays / slices.

import (
	"fmt"
	"go/types"
	"sort"
	"strings"

	"golang.org/x/tools/go/ssa"
)

type taintState struct {
	vals   map[ssa.Value]string // tainted value -> reason
	fields map[string]string    // "pkg.T.f" -> reason
	rets   map[*ssa.Function]string
}

func (e *Engine) taintDecls() (srcFields, srcCalls, srcParams map[string]bool, sinks, declass []string, pkgs map[string]bool) {
	srcFields, srcCalls, srcParams = map[string]bool{}, map[string]bool{}, map[string]bool{}
	pkgs = map[string]bool{}
	for _, t := range e.contracts.tainted {
		// "pkg|field T.f" | "pkg|call name" | "pkg|param fn.p" | "pkg|scan"
		i := strings.Index(t, "|")
		pkg, rest := t[:i], strings.Fields(t[i+1:])
		if len(rest) == 0 {
			continue
		}
		switch rest[0] {
		case "field":
			srcFields[pkg+"."+rest[1]] = true
		case "call":
			srcCalls[rest[1]] = true
		case "param":
			srcParams[pkg+"."+rest[1]] = true
		case "scan":
			pkgs[pkg] = true
		}
	}
	return srcFields, srcCalls, srcParams, e.contracts.sinks, e.contracts.declass, pkgs
}

func fieldKeyOf(t types.Type, idx int) string {
	if p, ok := t.Underlying().(*types.Pointer); ok {
		t = p.Elem()
	}
	st, ok := t.Underlying().(*types.Struct)
	if !ok {
		return ""
	}
	return shortTypeKey(t) + "." + st.Field(idx).Name()
}

func matchAny(pats []string, name string) bool {
	for _, p := range pats {
		if matchEvent(p, name) {
			return true
		}
	}
	return false
}

// taintObligations runs the analysis and returns one structural obligation per sink argument.
func (e *Engine) taintObligations() ([]*Obligation, []string) {
	srcFields, srcCalls, srcParams, sinks, declass, scan := e.taintDecls()
	var notes []string
	if len(sinks) == 0 {
		return nil, []string{"no sinks declared"}
	}
	var fns []*ssa.Function
	for k, fn := range e.fnByKey {
		if !e.isRepoFn(fn) || len(fn.Blocks) == 0 {
			continue
		}
		root := fn
		for root.Parent() != nil {
			root = root.Parent()
		}
		if root.Pkg == nil || !scan[root.Pkg.Pkg.Name()] {
			continue
		}
		if strings.Contains(k, "$bound") || strings.Contains(k, "$thunk") {
			continue
		}
		fns = append(fns, fn)
	}
	sort.Slice(fns, func(i, j int) bool { return qualFnName(fns[i]) < qualFnName(fns[j]) })
	ts := &taintState{vals: map[ssa.Value]string{}, fields: map[string]string{}, rets: map[*ssa.Function]string{}}
	for f := range srcFields {
		ts.fields[f] = "declared tainted field " + f
	}
	inScan := map[*ssa.Function]bool{}
	for _, fn := range fns {
		inScan[fn] = true
		for _, p := range fn.Params {
			if srcParams[qualFnName(fn)+"."+p.Name()] {
				ts.vals[p] = "declared tainted parameter " + qualFnName(fn) + "." + p.Name()
			}
		}
	}
	mark := func(v ssa.Value, why string) bool {
		if v == nil {
			return false
		}
		if _, ok := ts.vals[v]; ok {
			return false
		}
		ts.vals[v] = why
		return true
	}
	tainted := func(v ssa.Value) (string, bool) {
		w, ok := ts.vals[v]
		return w, ok
	}
	changed := true
	for iter := 0; changed && iter < 50; iter++ {
		changed = false
		for _, fn := range fns {
			for _, b := range fn.Blocks {
				for _, in := range b.Instrs {
					switch x := in.(type) {
					case *ssa.Call:
						name := calleeName(&x.Call)
						if matchAny(declass, name) {
							continue
						}
						if srcCalls[name] {
							if mark(x, "result of "+name) {
								changed = true
							}
						}
						// any tainted operand taints the result
						var ops []ssa.Value
						if x.Call.IsInvoke() {
							ops = append(ops, x.Call.Value)
						}
						ops = append(ops, x.Call.Args...)
						callee := x.Call.StaticCallee()
						if mc, ok := x.Call.Value.(*ssa.MakeClosure); ok {
							callee, _ = mc.Fn.(*ssa.Function)
						}
						for i, a := range ops {
							w, ok := tainted(a)
							if !ok {
								continue
							}
							if callee != nil && inScan[callee] {
								// context-insensitive: the callee's parameter becomes tainted
								pi := i
								if pi < len(callee.Params) {
									if mark(callee.Params[pi], "argument at "+posOf(e.prog, x)+": "+w) {
										changed = true
									}
								}
							} else if mark(x, "call "+name+" with tainted operand: "+w) {
								changed = true
							}
						}
						if callee != nil && inScan[callee] {
							if w, ok := ts.rets[callee]; ok {
								if mark(x, "result of "+qualFnName(callee)+": "+w) {
									changed = true
								}
							}
						}
					case *ssa.Return:
						for _, r := range x.Results {
							if w, ok := tainted(r); ok {
								if _, had := ts.rets[fn]; !had {
									ts.rets[fn] = w
									changed = true
								}
							}
						}
					case *ssa.Store:
						w, ok := tainted(x.Val)
						if !ok {
							continue
						}
						switch a := x.Addr.(type) {
						case *ssa.FieldAddr:
							k := fieldKeyOf(a.X.Type(), a.Field)
							if _, had := ts.fields[k]; !had && k != "" {
								ts.fields[k] = "stored at " + posOf(e.prog, x) + ": " + w
								changed = true
							}
						case *ssa.IndexAddr:
							if mark(a.X, "element stored at "+posOf(e.prog, x)+": "+w) {
								changed = true
							}
						default:
							if mark(x.Addr, "stored at "+posOf(e.prog, x)+": "+w) {
								changed = true
							}
						}
					case *ssa.FieldAddr:
						if w, ok := ts.fields[fieldKeyOf(x.X.Type(), x.Field)]; ok {
							if mark(x, w) {
								changed = true
							}
						}
					case *ssa.Field:
						if w, ok := ts.fields[fieldKeyOf(x.X.Type(), x.Field)]; ok {
							if mark(x, w) {
								changed = true
							}
						}
					case *ssa.MakeClosure:
						fnc, _ := x.Fn.(*ssa.Function)
						if fnc != nil {
							for i, bnd := range x.Bindings {
								if w, ok := tainted(bnd); ok && i < len(fnc.FreeVars) {
									if mark(fnc.FreeVars[i], w) {
										changed = true
									}
								}
							}
						}
					case ssa.Value:
						// generic propagation through operands (loads, conversions, slices, phis, binops, ...)
						var rands []*ssa.Value
						rands = in.Operands(rands)
						for _, r := range rands {
							if r == nil || *r == nil {
								continue
							}
							if w, ok := tainted(*r); ok {
								if mark(x, w) {
									changed = true
								}
								break
							}
						}
					}
				}
			}
		}
	}
	// sinks
	var obls []*Obligation
	d := NewDecls()
	nsinks := 0
	for _, fn := range fns {
		ord := 0
		for _, b := range fn.Blocks {
			for _, in := range b.Instrs {
				call, ok := in.(*ssa.Call)
				if !ok {
					continue
				}
				name := calleeName(&call.Call)
				if !matchAny(sinks, name) {
					continue
				}
				ord++
				nsinks++
				var ops []ssa.Value
				ops = append(ops, call.Call.Args...)
				start := 0
				if !call.Call.IsInvoke() && call.Call.StaticCallee() != nil && call.Call.StaticCallee().Signature.Recv() != nil {
					start = 1 // the receiver (the vector itself) is not a label
				}
				for i := start; i < len(ops); i++ {
					w, bad := tainted(ops[i])
					o := &Obligation{Name: fmt.Sprintf("%s/taint@sink#%d:%s:arg%d", qualFnName(fn), ord, shortName(name), i-start), Fn: qualFnName(fn), Kind: "taint",
						Goal: BoolLit(!bad), Pos: posOf(e.prog, call), Props: []string{"C20"}, decls: d, Backend: "structural"}
					if bad {
						o.Verdict = "structural-fail"
						o.Note = "client-address material reaches a metric name/label sink: " + w
					} else {
						o.Verdict = "syntactic"
						o.Note = "label/name argument of " + name + " carries no client-address material"
					}
					obls = append(obls, o)
				}
			}
		}
	}
	notes = append(notes, fmt.Sprintf("information flow: %d functions scanned in packages %v, %d sink calls, %d tainted values, %d tainted fields", len(fns), sortedBools(scan), nsinks, len(ts.vals), len(ts.fields)))
	return obls, notes
}
