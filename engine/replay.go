package main

// tryReplay runs the replay driver for a failed obligation, if one exists.
// It returns true when a concrete failing input was exhibited on the real code.
func tryReplay(e *Engine, verif, repo, prop string, o *Obligation, rec map[string]interface{}) bool {
	return runReplayDriver(e, verif, repo, prop, o, rec)
}
