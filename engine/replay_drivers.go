package main

func runReplayDriver(e *Engine, verif, repo, prop string, o *Obligation, rec map[string]interface{}) bool {
	rec["replay"] = "no replay driver for this obligation"
	return false
}
