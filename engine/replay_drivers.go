package main

import (
	"bytes"
	"context"
	"encoding/json"
	"os"
	"os/exec"
	"path/filepath"
	"strings"
	"time"
)

type driverSpec struct {
	Pkg    string   `json:"pkg"`    // package directory relative to the repo root
	File   string   `json:"file"`   // driver source under /verif/replay
	Run    string   `json:"run"`    // test name
	Race   bool     `json:"race"`
	Kinds  []string `json:"kinds"`  // obligation kinds this driver can replay (empty = all)
	Search bool     `json:"search"` // driver also performs a bounded search when the model does not replay
}

// runReplayDriver replays the verifier's counterexample (or a bounded search for a
// failing input) against the real code with `go test -overlay`; nothing is written to the repo.
func runReplayDriver(e *Engine, verif, repo, prop string, o *Obligation, rec map[string]interface{}) bool {
	if os.Getenv("GOVC_NO_REPLAY") != "" {
		rec["replay"] = "replay disabled for this run (mutation campaign)"
		return false
	}
	data, err := os.ReadFile(filepath.Join(verif, "replay", "drivers.json"))
	if err != nil {
		rec["replay"] = "no replay drivers registered"
		return false
	}
	var drivers map[string]driverSpec
	if err := json.Unmarshal(data, &drivers); err != nil {
		rec["replay"] = "drivers.json: " + err.Error()
		return false
	}
	d, ok := drivers[o.Fn]
	for key := o.Fn; !ok && strings.Contains(key, "$"); {
		// a closure without a driver of its own runs when its enclosing function does
		key = key[:strings.LastIndex(key, "$")]
		d, ok = drivers[key]
	}
	if !ok {
		rec["replay"] = "no replay driver for function " + o.Fn
		return false
	}
	scratch, err := os.MkdirTemp("/var/tmp", "govc-replay.")
	if err != nil {
		rec["replay"] = err.Error()
		return false
	}
	defer os.RemoveAll(scratch)
	wit := map[string]interface{}{"obligation": o.Name, "function": o.Fn, "kind": o.Kind, "values": o.Values, "verdict": o.Verdict}
	wdata, _ := json.Marshal(wit)
	wpath := filepath.Join(scratch, "witness.json")
	os.WriteFile(wpath, wdata, 0o644)
	target := filepath.Join(repo, d.Pkg, "zz_govc_replay_test.go")
	ov := map[string]map[string]string{"Replace": {target: filepath.Join(verif, "replay", d.File)}}
	ovdata, _ := json.Marshal(ov)
	ovpath := filepath.Join(scratch, "overlay.json")
	os.WriteFile(ovpath, ovdata, 0o644)
	args := []string{"test", "-overlay", ovpath, "-vet=off", "-count=1", "-timeout", "90s", "-run", "^" + d.Run + "$"}
	if d.Race {
		args = append(args, "-race")
	}
	args = append(args, "./"+d.Pkg)
	ctx, cancel := context.WithTimeout(context.Background(), 180*time.Second)
	defer cancel()
	cmd := exec.CommandContext(ctx, "go", args...)
	cmd.Dir = repo
	cmd.Env = append(envWithout("GOFLAGS"), "GOFLAGS=-mod=mod", "GOPROXY=off", "GOSUMDB=off", "GOTOOLCHAIN=local", "GOVC_WITNESS="+wpath)
	var out bytes.Buffer
	cmd.Stdout = &out
	cmd.Stderr = &out
	runErr := cmd.Run()
	text := out.String()
	rec["replay_cmd"] = "go " + strings.Join(args, " ") + "   (GOVC_WITNESS=<witness.json>, cwd " + repo + ")"
	rec["replay_output"] = truncate(text, 6000)
	confirmed := runErr != nil && strings.Contains(text, "REPLAY-FAIL")
	if confirmed {
		rec["replay"] = "failing input exhibited on the real code"
	} else if runErr != nil {
		rec["replay"] = "replay driver did not run cleanly: " + runErr.Error()
	} else {
		rec["replay"] = "the model did not reproduce a failure on the real code (and the bounded search, if any, found none)"
	}
	return confirmed
}
