package main

import (
	"encoding/json"
	"go/printer"
	"reflect"
	"fmt"
	"go/ast"
	"go/token"
	"go/types"
	"net"
	"os"
	"path/filepath"
	"sort"
	"strconv"
	"strings"

	"golang.org/x/tools/go/packages"
	"golang.org/x/tools/go/ssa"
	"golang.org/x/tools/go/ssa/ssautil"
)

type Engine struct {
	baseShapes  map[string]Shape
	baseNames   baselineNames
	lostConsts  map[string]bool // init-time constants the baseline had and this tree no longer yields
	brokenMemo  map[string]bool // functions whose helper postconditions fail for their own body (computed on demand)
	fieldAlias map[string]string            // "pkg.T.old" -> "new": struct fields renamed since the baseline (matched by type)
	localAlias map[string]map[string]string // function key -> old local / parameter / captured name -> new name
	aliasUsed  map[string]bool              // function keys in which a heuristic alias was applied
	loadWarnings []string // contract declarations that no longer match the code (reported as undecided where they matter)
	repo      string
	verif     string
	prog      *ssa.Program
	pkgs      []*packages.Package
	spkgs     []*ssa.Package
	contracts *Contracts
	loops     map[*ssa.Function]*loopInfoT
	ordinals  map[string]map[ssa.Instruction]int
	heapSorts map[string]Sort
	escFields map[string]bool
	closures  map[string]*closureInfo
	boxes     map[string]Value
	globalIDs map[string]int
	fnIDs     map[*ssa.Function]int
	fnByKey   map[string]*ssa.Function
	modsCache map[*ssa.Function]*fnMods
	loopBusy  map[*ssa.BasicBlock]bool
	modsBusy  map[*ssa.Function]bool
	loopModsCache map[*ssa.BasicBlock][]string
	guardIdx  map[string]guardedField   // "F|type.field" -> guard
	guardByMu map[string][]guardedField // mutex key -> fields
	localTypes map[*ssa.Function]map[string]types.Type
	repoPkgPaths map[string]bool
	inlineExtern map[string]bool
	initConsts map[string]func(c *Ctx, s *State) (Value, bool)
	loadSeconds float64
}

var repoPatterns = []string{"./service", "./service/metrics", "./net", "./prometheus", "./ipinfo", "./cmd/outline-ss-server"}

func NewEngine(repo, verif string) (*Engine, error) {
	e := &Engine{repo: repo, verif: verif, loops: map[*ssa.Function]*loopInfoT{}, ordinals: map[string]map[ssa.Instruction]int{},
		heapSorts: map[string]Sort{}, escFields: map[string]bool{}, closures: map[string]*closureInfo{}, boxes: map[string]Value{},
		globalIDs: map[string]int{}, fnIDs: map[*ssa.Function]int{}, fnByKey: map[string]*ssa.Function{},
		modsCache: map[*ssa.Function]*fnMods{}, loopBusy: map[*ssa.BasicBlock]bool{}, modsBusy: map[*ssa.Function]bool{}, loopModsCache: map[*ssa.BasicBlock][]string{},
		guardIdx: map[string]guardedField{}, guardByMu: map[string][]guardedField{}, localTypes: map[*ssa.Function]map[string]types.Type{},
		repoPkgPaths: map[string]bool{}, inlineExtern: map[string]bool{}, initConsts: map[string]func(c *Ctx, s *State) (Value, bool){}}
	cfg := &packages.Config{Mode: packages.LoadAllSyntax, Dir: repo, BuildFlags: []string{"-tags=verif"},
		Env: append(envWithout("GOFLAGS"), "GOFLAGS=-mod=mod", "GOPROXY=off", "GOSUMDB=off", "GOTOOLCHAIN=local")}
	pkgs, err := packages.Load(cfg, repoPatterns...)
	if err != nil {
		return nil, err
	}
	for _, p := range pkgs {
		for _, er := range p.Errors {
			return nil, fmt.Errorf("package %s: %v", p.PkgPath, er)
		}
		e.repoPkgPaths[p.PkgPath] = true
	}
	e.pkgs = pkgs
	prog, spkgs := ssautil.AllPackages(pkgs, ssa.GlobalDebug|ssa.InstantiateGenerics)
	prog.Build()
	e.prog, e.spkgs = prog, spkgs
	for fn := range ssautil.AllFunctions(prog) {
		if fn.Pkg != nil || fn.Parent() != nil {
			root := fn
			for root.Parent() != nil {
				root = root.Parent()
			}
			if root.Pkg == nil {
				continue
			}
			// keys use the short package name; on a collision (the repo's "net" and the standard one) the
			// repo's function wins, otherwise the lexically smaller package path: deterministic either way
			k := qualFnName(fn)
			if old := e.fnByKey[k]; old != nil {
				oroot := old
				for oroot.Parent() != nil {
					oroot = oroot.Parent()
				}
				op, np := oroot.Pkg.Pkg.Path(), root.Pkg.Pkg.Path()
				oRepo, nRepo := strings.HasPrefix(op, "github.com/Jigsaw-Code/outline-ss-server"), strings.HasPrefix(np, "github.com/Jigsaw-Code/outline-ss-server")
				if (oRepo && !nRepo) || (oRepo == nRepo && op <= np) {
					continue
				}
			}
			e.fnByKey[k] = fn
		}
	}
	e.contracts = NewContracts()
	if err := e.contracts.LoadAll(repo, verif); err != nil {
		return nil, err
	}
	for _, n := range e.contracts.inlineExtern {
		e.inlineExtern[n] = true
	}
	if data, err := os.ReadFile(filepath.Join(verif, "baseline_shapes.json")); err == nil && os.Getenv("GOVC_NO_REBIND") == "" {
		base := map[string]Shape{}
		if json.Unmarshal(data, &base) == nil {
			e.baseShapes = base
			e.rebindContracts(base)
			e.remapLoops(base)
		}
		e.computeAliases(verif)
	}
	for key, fc := range e.contracts.funcs {
		mention := func(src string) bool { return strings.Contains(src, "clock(") }
		for _, cl := range fc.Ensures {
			fc.MentionsClock = fc.MentionsClock || mention(cl.Src)
		}
		for _, cl := range fc.Requires {
			fc.MentionsClock = fc.MentionsClock || mention(cl.Src)
		}
		for _, tr := range fc.Traces {
			fc.MentionsClock = fc.MentionsClock || mention(tr.Src)
		}
		for _, cls := range fc.LoopInv {
			for _, cl := range cls {
				fc.MentionsClock = fc.MentionsClock || mention(cl.Src)
			}
		}
		for _, li := range e.contracts.lockInvs {
			if mention(li.Src) && strings.Contains(key, "(*"+li.Struct[strings.LastIndex(li.Struct, ".")+1:]+")") {
				fc.MentionsClock = true
			}
		}
	}
	e.computeEscapes()
	if err := e.indexGuards(); err != nil {
		return nil, err
	}
	e.registerInitConsts()
	e.lostConsts = map[string]bool{}
	for _, k := range e.baseNames.InitConsts {
		if _, ok := e.initConsts[k]; !ok {
			e.lostConsts[k] = true
		}
	}
	return e, nil
}

func (e *Engine) globalID(name string) int {
	if id, ok := e.globalIDs[name]; ok {
		return id
	}
	id := len(e.globalIDs) + 1
	e.globalIDs[name] = id
	return id
}

func (e *Engine) fnID(fn *ssa.Function) int {
	if id, ok := e.fnIDs[fn]; ok {
		return id
	}
	id := len(e.fnIDs) + 1
	e.fnIDs[fn] = id
	return id
}

func (e *Engine) isRepoFn(fn *ssa.Function) bool {
	root := fn
	for root.Parent() != nil {
		root = root.Parent()
	}
	if root.Pkg == nil {
		if fn.Origin() != nil && fn.Origin().Pkg != nil {
			return e.repoPkgPaths[fn.Origin().Pkg.Pkg.Path()]
		}
		return false
	}
	return e.repoPkgPaths[root.Pkg.Pkg.Path()]
}

// inlinable: repo functions, plus dependency functions listed for inlining
// (small pure functions whose SSA is verified like repo code).
func (e *Engine) inlinable(fn *ssa.Function) bool {
	if e.isRepoFn(fn) {
		return true
	}
	return e.inlineExtern[qualFnName(fn)]
}

func (e *Engine) isEvent(name string) bool { return name != "" }

// computeEscapes finds non-struct fields whose address escapes (is used other than for
// an immediate load/store); those fields live in Cell heaps at a sub-object address.
func (e *Engine) computeEscapes() {
	for fn := range ssautil.AllFunctions(e.prog) {
		if !e.isRepoFn(fn) {
			continue
		}
		for _, b := range fn.Blocks {
			for _, in := range b.Instrs {
				fa, ok := in.(*ssa.FieldAddr)
				if !ok {
					continue
				}
				pt := fa.X.Type().Underlying().(*types.Pointer).Elem()
				st := pt.Underlying().(*types.Struct)
				ft := st.Field(fa.Field).Type()
				if _, isS := isStructType(ft); isS {
					continue
				}
				if _, abs := abstractSort(ft); abs {
					continue
				}
				if _, isA := ft.Underlying().(*types.Array); isA {
					continue
				}
				for _, r := range *fa.Referrers() {
					switch u := r.(type) {
					case *ssa.UnOp:
						continue
					case *ssa.Store:
						if u.Addr == ssa.Value(fa) {
							continue
						}
					case *ssa.DebugRef:
						continue
					}
					e.escFields[fieldHeapName(pt, fa.Field)] = true
				}
			}
		}
	}
}

func (e *Engine) namedType(short string) types.Type {
	// short = "pkgname.Type"
	i := strings.Index(short, ".")
	if i < 0 {
		return nil
	}
	pn, tn := short[:i], short[i+1:]
	for _, sp := range e.prog.AllPackages() {
		if sp.Pkg.Name() == pn {
			if obj := sp.Pkg.Scope().Lookup(tn); obj != nil {
				if _, ok := obj.(*types.TypeName); ok {
					if pn == "main" || e.repoPkgPaths[sp.Pkg.Path()] || !strings.Contains(sp.Pkg.Path(), "/") || true {
						return obj.Type()
					}
				}
			}
		}
	}
	return nil
}

func (e *Engine) typeCodeByName(name string) (int, bool) {
	// name like "*net.UDPAddr"
	ptr := strings.HasPrefix(name, "*")
	t := e.namedType(strings.TrimPrefix(name, "*"))
	if t == nil {
		return 0, false
	}
	if ptr {
		t = types.NewPointer(t)
	}
	return typeCode(t), true
}

func (e *Engine) indexGuards() error {
	for _, g := range e.contracts.guards {
		t := e.namedType(g.Struct)
		if t == nil {
			e.loadWarnings = append(e.loadWarnings, fmt.Sprintf("guarded: unknown type %s (declaration ignored)", g.Struct))
			continue
		}
		st, ok := t.Underlying().(*types.Struct)
		if !ok {
			e.loadWarnings = append(e.loadWarnings, fmt.Sprintf("guarded: %s is not a struct (declaration ignored)", g.Struct))
			continue
		}
		muKey := g.Struct + "." + g.Mutex
		if g.Class == "under" {
			muKey = g.Mutex
		}
		if g.Class == "mutex" {
			found := false
			for i := 0; i < st.NumFields(); i++ {
				if st.Field(i).Name() == g.Mutex {
					found = true
				}
			}
			if !found {
				e.loadWarnings = append(e.loadWarnings, fmt.Sprintf("guarded: %s has no field %s (declaration ignored: the fields it protected are unchecked)", g.Struct, g.Mutex))
				continue
			}
		}
		for _, fname := range g.Fields {
			gf := guardedField{key: g.Struct + "." + fname, structT: t, class: g.Class, mutex: muKey, field: -1}
			for i := 0; i < st.NumFields(); i++ {
				if st.Field(i).Name() == fname {
					gf.field = i
				}
			}
			if gf.field < 0 {
				if _, ok := e.contracts.ghosts[gf.key]; ok {
					gf.ghost = true
				} else {
					e.loadWarnings = append(e.loadWarnings, fmt.Sprintf("guarded: %s has no field %s (ignored)", g.Struct, fname))
					continue
				}
			}
			if !gf.ghost {
				e.guardIdx[fieldHeapName(t, gf.field)] = gf
			}
			if g.Class == "mutex" {
				e.guardByMu[muKey] = append(e.guardByMu[muKey], gf)
			}
		}
	}
	return nil
}

func (e *Engine) guardsOf(muKey string) []guardedField { return e.guardByMu[muKey] }

func (e *Engine) guardOfField(structT types.Type, field int) (guardedField, bool) {
	g, ok := e.guardIdx[fieldHeapName(structT, field)]
	return g, ok
}

// localType finds the declared type of a local variable by name (via DebugRef objects).
func (e *Engine) localType(fn *ssa.Function, name string) types.Type {
	m, ok := e.localTypes[fn]
	if !ok {
		m = map[string]types.Type{}
		for _, p := range fn.Params {
			m[p.Name()] = p.Type()
		}
		for _, fv := range fn.FreeVars {
			if pt, ok := fv.Type().(*types.Pointer); ok {
				m[fv.Name()] = pt.Elem()
			}
		}
		for _, b := range fn.Blocks {
			for _, in := range b.Instrs {
				switch x := in.(type) {
				case *ssa.DebugRef:
					if obj := x.Object(); obj != nil {
						if v, ok := obj.(*types.Var); !ok || v.IsField() || (obj.Pkg() != nil && obj.Parent() == obj.Pkg().Scope()) {
							continue
						}
						if _, seen := m[obj.Name()]; !seen {
							m[obj.Name()] = obj.Type()
						}
					}
				case *ssa.Alloc:
					if x.Comment != "" && x.Comment != "complit" && x.Comment != "varargs" {
						if _, seen := m[x.Comment]; !seen {
							m[x.Comment] = x.Type().(*types.Pointer).Elem()
						}
					}
				case *ssa.Phi:
					if x.Comment != "" {
						if _, seen := m[x.Comment]; !seen {
							m[x.Comment] = x.Type()
						}
					}
				}
			}
		}
		e.localTypes[fn] = m
	}
	return m[name]
}

// ---------- effects discovery (frames are inferred, not declared) ----------

// Mods describes what a piece of code may write: whole heaps, and single objects of heaps.
type Mods struct {
	Whole []string
	At    []ModAt
}

type ModAt struct {
	Heap string
	Base Term // loops: the object; functions: a term over the formal input symbols
}

// loopMods: what the body of the loop with the given header may write (scout run on a copy
// of the current path, so object terms are meaningful for this path).
func (e *Engine) loopMods(c *Ctx, s *State, header *ssa.BasicBlock) Mods {
	if e.loopBusy[header] {
		return Mods{}
	}
	e.loopBusy[header] = true
	defer delete(e.loopBusy, header)
	sc := s.clone()
	savedW, savedWA, savedScout, savedSF := c.written, c.writtenAt, c.scout, c.scoutFresh
	savedStop, savedDepth := c.scoutBody, c.scoutDepth
	savedLR := c.localRefs
	c.localRefs = nil
	c.written = map[string]bool{}
	c.writtenAt = nil
	c.scoutFresh = c.fresh
	c.scout++
	fr := sc.top()
	fr.openLoops[header] = true
	c.scoutBody = e.loopInfo(fr.fn).body[header]
	c.scoutDepth = len(sc.frames)
	c.resumeHeader = header
	var out []retPath
	c.execBlock(sc, header, nil, &out)
	m := Mods{Whole: sortedBools(c.written)}
	for _, h := range sortedKeys(c.writtenAt) {
		if c.written[h] {
			continue
		}
		for _, b := range sortedKeys(c.writtenAt[h]) {
			m.At = append(m.At, ModAt{h, c.writtenAt[h][b]})
		}
	}
	c.written, c.writtenAt, c.scout, c.scoutFresh = savedW, savedWA, savedScout, savedSF
	c.scoutBody, c.scoutDepth = savedStop, savedDepth
	c.localRefs = savedLR
	c.mergeMods(m)
	return m
}

// mergeMods records the effects of an inner run in the enclosing effects-discovery run.
func (c *Ctx) mergeMods(m Mods) {
	if c.written == nil {
		return
	}
	for _, h := range m.Whole {
		c.written[h] = true
	}
	for _, a := range m.At {
		if c.isLocalRef(a.Base) {
			continue
		}
		if c.stableBase(a.Base) {
			if c.writtenAt == nil {
				c.writtenAt = map[string]map[string]Term{}
			}
			if c.writtenAt[a.Heap] == nil {
				c.writtenAt[a.Heap] = map[string]Term{}
			}
			c.writtenAt[a.Heap][a.Base.S] = a.Base
		} else {
			c.written[a.Heap] = true
		}
	}
}

type fnMods struct {
	Whole   []string
	At      []ModAt  // bases are terms over formal placeholder symbols "formal!k"
	Formals []string // the placeholder symbols, in flattened-input order
}

func flattenAll(v Value, out *[]Term) {
	switch x := v.(type) {
	case Sc:
		*out = append(*out, x.T)
	case Sl:
		*out = append(*out, x.Arr, x.Off, x.Len, x.Cap)
	case If:
		*out = append(*out, x.Typ, x.Val)
	case St:
		for _, f := range x.F {
			flattenAll(f, out)
		}
	case Tu:
		for _, f := range x.E {
			flattenAll(f, out)
		}
	case Ar:
		*out = append(*out, x.Elems)
	}
}

// modsOf: what a function may write (scout run of its body from a blank state); object-precise
// for objects named by the function's inputs.
func (e *Engine) modsOf(c *Ctx, fn *ssa.Function) *fnMods {
	if m, ok := e.modsCache[fn]; ok {
		return m
	}
	if e.modsBusy[fn] || len(fn.Blocks) == 0 {
		return &fnMods{}
	}
	e.modsBusy[fn] = true
	defer delete(e.modsBusy, fn)
	s := &State{heap: map[string]Term{}}
	savedW, savedWA, savedScout, savedDepth, savedSF := c.written, c.writtenAt, c.scout, c.depth, c.scoutFresh
	savedStop, savedSD := c.scoutBody, c.scoutDepth
	c.scoutBody, c.scoutDepth = nil, 0
	savedLR := c.localRefs
	c.localRefs = nil
	c.written = map[string]bool{}
	c.writtenAt = nil
	c.scout++
	c.depth = 0
	var args []Value
	for _, p := range fn.Params {
		args = append(args, c.freshValue(s, p.Type(), "sp|"+p.Name()))
	}
	var binds []Value
	for _, fv := range fn.FreeVars {
		binds = append(binds, c.freshValue(s, fv.Type(), "sf|"+fv.Name()))
	}
	c.scoutFresh = c.fresh
	var formals []Term
	for _, a := range args {
		flattenAll(a, &formals)
	}
	for _, b := range binds {
		flattenAll(b, &formals)
	}
	c.runFunction(s, fn, args, binds)
	fm := &fnMods{Whole: sortedBools(c.written)}
	for _, f := range formals {
		fm.Formals = append(fm.Formals, f.S)
	}
	isFormal := map[string]bool{}
	for _, f := range fm.Formals {
		isFormal[f] = true
	}
	for _, h := range sortedKeys(c.writtenAt) {
		if c.written[h] {
			continue
		}
		for _, bk := range sortedKeys(c.writtenAt[h]) {
			b := c.writtenAt[h][bk]
			// the base must be expressible over the formals: every symbol with a fresh suffix must be a formal
			ok := true
			for _, tokn := range tokenize(b.S) {
				if freshNumRe.MatchString(tokn) && !isFormal[tokn] {
					ok = false
				}
			}
			if ok {
				fm.At = append(fm.At, ModAt{h, b})
			} else {
				fm.Whole = append(fm.Whole, h)
			}
		}
	}
	fm.Whole = uniqSorted(fm.Whole)
	c.written, c.writtenAt, c.scout, c.depth, c.scoutFresh = savedW, savedWA, savedScout, savedDepth, savedSF
	c.scoutBody, c.scoutDepth = savedStop, savedSD
	c.localRefs = savedLR
	e.modsCache[fn] = fm
	return fm
}

func uniqSorted(xs []string) []string {
	sort.Strings(xs)
	var out []string
	for i, x := range xs {
		if i == 0 || x != xs[i-1] {
			out = append(out, x)
		}
	}
	return out
}

// tokenize splits an SMT term into symbols (respecting |quoted| symbols).
func tokenize(s string) []string {
	var out []string
	i := 0
	for i < len(s) {
		switch s[i] {
		case ' ', '(', ')':
			i++
		case '|':
			j := strings.IndexByte(s[i+1:], '|')
			if j < 0 {
				return append(out, s[i:])
			}
			out = append(out, s[i:i+j+2])
			i += j + 2
		default:
			j := i
			for j < len(s) && s[j] != ' ' && s[j] != '(' && s[j] != ')' {
				j++
			}
			out = append(out, s[i:j])
			i = j
		}
	}
	return out
}

// substTerm replaces symbols in a term according to the map (token-wise).
func substTerm(t Term, m map[string]string) Term {
	var sb strings.Builder
	s := t.S
	i := 0
	for i < len(s) {
		switch s[i] {
		case ' ', '(', ')':
			sb.WriteByte(s[i])
			i++
		case '|':
			j := strings.IndexByte(s[i+1:], '|')
			if j < 0 {
				sb.WriteString(s[i:])
				i = len(s)
				break
			}
			tokn := s[i : i+j+2]
			if r, ok := m[tokn]; ok {
				sb.WriteString(r)
			} else {
				sb.WriteString(tokn)
			}
			i += j + 2
		default:
			j := i
			for j < len(s) && s[j] != ' ' && s[j] != '(' && s[j] != ')' {
				j++
			}
			tokn := s[i:j]
			if r, ok := m[tokn]; ok {
				sb.WriteString(r)
			} else {
				sb.WriteString(tokn)
			}
			i = j
		}
	}
	return Term{sb.String(), t.Sort}
}

// applyMods havocs what a callee may write, at a call site with the given actual inputs.
func (c *Ctx) applyMods(s *State, fm *fnMods, actualArgs, actualBinds []Value) {
	for _, h := range fm.Whole {
		c.havocHeap(s, h)
	}
	if len(fm.At) == 0 {
		return
	}
	var actuals []Term
	for _, a := range actualArgs {
		flattenAll(a, &actuals)
	}
	for _, b := range actualBinds {
		flattenAll(b, &actuals)
	}
	sub := map[string]string{}
	for i, f := range fm.Formals {
		if i < len(actuals) {
			sub[f] = actuals[i].S
		}
	}
	if len(actuals) < len(fm.Formals) {
		// cannot relate formals to actuals: fall back to whole-heap havoc
		for _, a := range fm.At {
			c.havocHeap(s, a.Heap)
		}
		return
	}
	for _, a := range fm.At {
		c.havocAt(s, a.Heap, substTerm(a.Base, sub))
	}
}

// havocAt forgets the contents of one object in a heap.
func (c *Ctx) havocAt(s *State, heap string, base Term) {
	sort, ok := c.eng.heapSorts[heap]
	if !ok {
		return
	}
	if !strings.HasPrefix(string(sort), "(Array") {
		c.havocHeap(s, heap)
		return
	}
	h := c.getHeap(s, heap, sort)
	c.setHeapAt(s, heap, Store(h, base, c.freshConst("hva|"+heap, arrElemSort(sort))), base)
}

// ---------- init-time constants, extracted mechanically ----------

func (e *Engine) globalConst(c *Ctx, s *State, g *ssa.Global) (Value, bool) {
	f, ok := e.initConsts[g.Pkg.Pkg.Path()+"."+g.Name()]
	if !ok {
		return nil, false
	}
	return f(c, s)
}

// registerInitConsts reads the init-time values the proofs depend on from the AST of the
// real sources on every run:
//   service.maxAddrLen     = len(socks.ParseAddr(<literal>)), computed with the same rule
//   net.privateNetworks    = the CIDR literals in onet's init(), parsed with net.ParseCIDR
// registerInitIfaceConsts: package-level interface variables initialised once, in init, with a
// constant value of a concrete type (e.g. RandomServerSaltGenerator = randomServerSaltGenerator{}).
func (e *Engine) registerInitIfaceConsts() {
	for _, sp := range e.spkgs {
		if sp == nil || !e.repoPkgPaths[sp.Pkg.Path()] {
			continue
		}
		initFn := sp.Func("init")
		if initFn == nil {
			continue
		}
		for _, b := range initFn.Blocks {
			for _, in := range b.Instrs {
				st, ok := in.(*ssa.Store)
				if !ok {
					continue
				}
				g, ok := st.Addr.(*ssa.Global)
				if !ok {
					continue
				}
				if fnv, ok := st.Val.(*ssa.Function); ok && e.onlyInitStores(g.Pkg.Pkg.Path(), g.Name()) {
					// package-level function variable initialised once (e.g. `var now = time.Now`)
					key := g.Pkg.Pkg.Path() + "." + g.Name()
					gname, target := g.Name(), fnv
					e.initConsts[key] = func(c *Ctx, s *State) (Value, bool) {
						c.note("init-time constant " + gname + " = " + target.String() + " (only store is in init; tests stub it)")
						return c.funcValue(s, target, nil), true
					}
					continue
				}
				if call, ok := st.Val.(*ssa.Call); ok {
					// package-level sentinel error: `var errX = errors.New("...")` / fmt.Errorf(...): some non-nil
					// error value, the same at every use (only store is in init)
					if callee := call.Call.StaticCallee(); callee != nil && (callee.String() == "errors.New" || callee.String() == "fmt.Errorf") &&
						types.IsInterface(g.Type().(*types.Pointer).Elem()) && e.onlyInitStores(g.Pkg.Pkg.Path(), g.Name()) {
						key := g.Pkg.Pkg.Path() + "." + g.Name()
						gname := g.Name()
						e.initConsts[key] = func(c *Ctx, s *State) (Value, bool) {
							c.note("init-time constant " + gname + " is a non-nil sentinel error (errors.New / fmt.Errorf in its initialiser; only store is in init)")
							typ := c.d.Const("sentinel|typ|"+key, SInt)
							val := c.d.Const("sentinel|val|"+key, SInt)
							s.assume(And(Neq(typ, IntLit(0)), Neq(val, IntLit(0))))
							return If{Typ: typ, Val: val}, true
						}
					}
					continue
				}
				mi, ok := st.Val.(*ssa.MakeInterface)
				if !ok {
					continue
				}
				if _, isConst := mi.X.(*ssa.Const); !isConst {
					continue
				}
				if !e.onlyInitStores(g.Pkg.Pkg.Path(), g.Name()) {
					continue
				}
				ct := mi.X.Type()
				key := g.Pkg.Pkg.Path() + "." + g.Name()
				gname := g.Name()
				e.initConsts[key] = func(c *Ctx, s *State) (Value, bool) {
					c.note("init-time constant " + gname + " holds a " + ct.String() + " (only store is in init)")
					return c.makeInterface(s, c.zeroValue(ct), ct), true
				}
			}
		}
	}
}

func (e *Engine) registerInitConsts() {
	e.registerInitIfaceConsts()
	for _, p := range e.pkgs {
		switch {
		case strings.HasSuffix(p.PkgPath, "/service"):
			for _, f := range p.Syntax {
				ast.Inspect(f, func(n ast.Node) bool {
					vs, ok := n.(*ast.ValueSpec)
					if !ok || len(vs.Names) != 1 || vs.Names[0].Name != "maxAddrLen" || len(vs.Values) != 1 {
						return true
					}
					// expect len(socks.ParseAddr("literal"))
					call, ok := vs.Values[0].(*ast.CallExpr)
					if !ok || len(call.Args) != 1 {
						return true
					}
					inner, ok := call.Args[0].(*ast.CallExpr)
					if !ok || len(inner.Args) != 1 {
						return true
					}
					lit, ok := inner.Args[0].(*ast.BasicLit)
					if !ok || lit.Kind != token.STRING {
						return true
					}
					sv, _ := strconv.Unquote(lit.Value)
					n2 := socksAddrLen(sv)
					if n2 > 0 && e.onlyInitStores(p.PkgPath, "maxAddrLen") {
						e.initConsts[p.PkgPath+".maxAddrLen"] = func(c *Ctx, s *State) (Value, bool) {
							c.note(fmt.Sprintf("init-time constant service.maxAddrLen = %d (from literal %q; no store outside init)", n2, sv))
							return Sc{T: IntLit(int64(n2))}, true
						}
					}
					return true
				})
			}
		case strings.HasSuffix(p.PkgPath, "/net"):
			var cidrs []string
			for _, f := range p.Syntax {
				for _, d := range f.Decls {
					fd, ok := d.(*ast.FuncDecl)
					if !ok || fd.Name.Name != "init" || fd.Recv != nil {
						continue
					}
					ast.Inspect(fd, func(n ast.Node) bool {
						cl, ok := n.(*ast.CompositeLit)
						if !ok {
							return true
						}
						if at, ok := cl.Type.(*ast.ArrayType); ok {
							if id, ok := at.Elt.(*ast.Ident); ok && id.Name == "string" {
								for _, el := range cl.Elts {
									if bl, ok := el.(*ast.BasicLit); ok && bl.Kind == token.STRING {
										sv, _ := strconv.Unquote(bl.Value)
										cidrs = append(cidrs, sv)
									}
								}
							}
						}
						return true
					})
				}
			}
			if len(cidrs) > 0 && e.onlyInitStores(p.PkgPath, "privateNetworks") {
				pk := p.PkgPath
				e.initConsts[pk+".privateNetworks"] = func(c *Ctx, s *State) (Value, bool) {
					return e.privateNetworksValue(c, s, cidrs), true
				}
			}
		}
	}
}

// socksAddrLen mirrors socks.ParseAddr's length rule for IP literals (1+4+2 / 1+16+2).
func socksAddrLen(hostport string) int {
	host, _, err := net.SplitHostPort(hostport)
	if err != nil {
		return 0
	}
	ip := net.ParseIP(host)
	if ip == nil {
		return 1 + 1 + len(host) + 2
	}
	if ip.To4() != nil {
		return 7
	}
	return 19
}

// onlyInitStores: the global is stored only by the package initialiser.
func (e *Engine) onlyInitStores(pkgPath, name string) bool {
	for fn := range ssautil.AllFunctions(e.prog) {
		for _, b := range fn.Blocks {
			for _, in := range b.Instrs {
				st, ok := in.(*ssa.Store)
				if !ok {
					continue
				}
				g, ok := st.Addr.(*ssa.Global)
				if !ok || g.Name() != name || g.Pkg.Pkg.Path() != pkgPath {
					continue
				}
				if !strings.HasPrefix(fn.Name(), "init") {
					return false
				}
			}
		}
	}
	return true
}

// privateNetworksValue builds the []*net.IPNet value as init() leaves it.
func (e *Engine) privateNetworksValue(c *Ctx, s *State, cidrs []string) Value {
	// modelling the init-time contents is not a write of the function being analysed
	savedW := c.written
	c.written = nil
	defer func() { c.written = savedW }()
	ipnetT := e.namedType("net.IPNet")
	c.d.Fun("gid", []Sort{SInt}, SInt)
	mkObj := func(name string) Term {
		t := c.d.Const(name, SInt)
		c.d.Axiom(fmt.Sprintf("(and (not (= %s 0)) (= (gid %s) %d))", t.S, t.S, e.globalID(name)))
		return t
	}
	arr := mkObj("init|privateNetworks.arr")
	var listed []string
	for i, cs := range cidrs {
		_, nw, err := net.ParseCIDR(cs)
		if err != nil {
			continue
		}
		listed = append(listed, cs)
		obj := mkObj(fmt.Sprintf("init|privateNetworks.%d", i))
		// element i of the slice is obj
		ptrT := types.NewPointer(ipnetT)
		c.storeElem(s, arr, IntLit(int64(i)), ptrT, Sc{T: obj})
		// obj.IP, obj.Mask are byte slices with known contents
		mk := func(bytes []byte, tag string) Value {
			ba := mkObj(fmt.Sprintf("init|privateNetworks.%d.%s", i, tag))
			for j, b := range bytes {
				c.storeElem(s, ba, IntLit(int64(j)), types.Typ[types.Uint8], Sc{T: BVLit(uint64(b), 8)})
			}
			return Sl{Arr: ba, Off: IntLit(0), Len: IntLit(int64(len(bytes))), Cap: IntLit(int64(len(bytes)))}
		}
		st := ipnetT.Underlying().(*types.Struct)
		for f := 0; f < st.NumFields(); f++ {
			switch st.Field(f).Name() {
			case "IP":
				c.storeField(s, obj, ipnetT, f, mk(nw.IP, "ip"))
			case "Mask":
				c.storeField(s, obj, ipnetT, f, mk(nw.Mask, "mask"))
			}
		}
	}
	c.note("init-time table net.privateNetworks = " + strings.Join(listed, ", ") + " (string literals of init(), parsed with net.ParseCIDR; no store outside init)")
	n := int64(len(listed))
	return Sl{Arr: arr, Off: IntLit(0), Len: IntLit(n), Cap: IntLit(n)}
}

// functionsForProperty lists the contracted functions whose props include p.
func (e *Engine) functionsForProperty(p string) []*FuncContract {
	var out []*FuncContract
	for _, k := range sortedKeys(e.contracts.funcs) {
		fc := e.contracts.funcs[k]
		if fc.Assumed {
			continue
		}
		for _, q := range fc.Props {
			if q == p {
				out = append(out, fc)
				break
			}
		}
	}
	sort.Slice(out, func(i, j int) bool { return out[i].Key < out[j].Key })
	return out
}

// resultTypeOf finds the result type of a function or interface method by contract key.
func (e *Engine) resultTypeOf(key string) (types.Type, bool) {
	if fn := e.fnByKey[key]; fn != nil {
		rt := fn.Signature.Results()
		if rt.Len() == 1 {
			return rt.At(0).Type(), true
		}
		return rt, true
	}
	// any function in the program with that qualified name (dependencies)
	for fn := range ssautil.AllFunctions(e.prog) {
		if fn.Pkg == nil && fn.Parent() == nil {
			continue
		}
		if qualFnName(fn) == key {
			rt := fn.Signature.Results()
			if rt.Len() == 1 {
				return rt.At(0).Type(), true
			}
			return rt, true
		}
	}
	// interface method: "pkg.Iface.Method"
	i := strings.LastIndex(key, ".")
	if i > 0 {
		if t := e.namedType(key[:i]); t != nil {
			if it, ok := t.Underlying().(*types.Interface); ok {
				for j := 0; j < it.NumMethods(); j++ {
					if it.Method(j).Name() == key[i+1:] {
						rt := it.Method(j).Type().(*types.Signature).Results()
						if rt.Len() == 1 {
							return rt.At(0).Type(), true
						}
						return rt, true
					}
				}
			}
		}
	}
	return nil, false
}

// Shape is the coarse structure of a function that its contract is written against: when it differs
// from the baseline recorded for the unchanged tree, proof-internal obligations (loop invariants,
// callee preconditions, safety side conditions) that no longer discharge mean "the proof needs
// maintenance", not "the property is violated".
type Shape struct {
	LoopSigs []string `json:"loopsigs,omitempty"` // source form of each loop header, in loop-ordinal order
	SrcLoops int      `json:"srcloops"`           // for / range statements in the source of the function (not of its closures)
	Params   []string `json:"params"`
	Loops    int      `json:"loops"`
	Closures int      `json:"closures"`
	NParams  int      `json:"nparams"`
	FreeVars []string `json:"freevars"`
	Results  int      `json:"results"`
}

func (e *Engine) shapeOf(fn *ssa.Function) Shape {
	sh := Shape{Closures: len(fn.AnonFuncs), NParams: len(fn.Params), Results: fn.Signature.Results().Len(), FreeVars: []string{}}
	if len(fn.Blocks) > 0 {
		sh.Loops = len(e.loopInfo(fn).ordinal)
	}
	for _, fv := range fn.FreeVars {
		sh.FreeVars = append(sh.FreeVars, fv.Name())
	}
	sort.Strings(sh.FreeVars)
	sh.LoopSigs = e.loopSigs(fn, sh.Loops)
	sh.SrcLoops = len(e.loopSigs(fn, -1))
	sh.Params = []string{}
	for _, p := range fn.Params {
		sh.Params = append(sh.Params, p.Name())
	}
	return sh
}

func (e *Engine) shapes() map[string]Shape {
	out := map[string]Shape{}
	for k, fn := range e.fnByKey {
		if e.isRepoFn(fn) && len(fn.Blocks) > 0 {
			out[k] = e.shapeOf(fn)
		}
	}
	return out
}

func sameShape(a, b Shape) bool {
	if a.Loops != b.Loops || a.Closures != b.Closures || a.NParams != b.NParams || a.Results != b.Results || len(a.FreeVars) != len(b.FreeVars) {
		return false
	}
	for i := range a.FreeVars {
		if a.FreeVars[i] != b.FreeVars[i] {
			return false
		}
	}
	return true
}

// rebindContracts lets a contract follow the function it was written for. The baseline records, for the
// unchanged tree, which variables each function under contract captures and which parameters it has.
// If the function now found under a contract's key does not have that signature (closures renumbered
// because one was added or removed, a closure turned into a named function, a function renamed), the
// contract is re-bound to the unique function of the same package / enclosing function that does;
// if there is none, the contract is detached and everything it would have decided is undecided.
// Re-binding is sound: a contract attached to the wrong function only makes obligations fail.
func (e *Engine) rebindContracts(base map[string]Shape) {
	var baseNames baselineNames
	if data, err := os.ReadFile(filepath.Join(e.verif, "baseline_names.json")); err == nil {
		json.Unmarshal(data, &baseNames)
	}
	nameSet := func(params, free []string) string {
		all := append(append([]string{}, params...), free...)
		sort.Strings(all)
		return strings.Join(all, ",")
	}
	matches := func(b Shape, fn *ssa.Function) bool {
		if fn == nil || len(fn.Blocks) == 0 {
			return false
		}
		c := e.shapeOf(fn)
		if len(c.FreeVars) != len(b.FreeVars) || c.NParams != b.NParams {
			return false
		}
		for i := range c.FreeVars {
			if c.FreeVars[i] != b.FreeVars[i] {
				return false
			}
		}
		return true
	}
	rootOf := func(key string) string {
		if i := strings.Index(key, "$"); i >= 0 {
			return key[:i]
		}
		return key
	}
	claimed := map[*ssa.Function]bool{}
	var pending []string
	for _, key := range sortedKeys(e.contracts.funcs) {
		fc := e.contracts.funcs[key]
		if fc.Assumed {
			continue
		}
		b, ok := base[key]
		if !ok {
			continue
		}
		if fn := e.fnByKey[key]; matches(b, fn) {
			claimed[fn] = true
			continue
		}
		pending = append(pending, key)
	}
	if len(pending) == 0 {
		return
	}
	pendingSet := map[string]bool{}
	for _, k := range pending {
		pendingSet[k] = true
	}
	var fns []*ssa.Function
	for _, fn := range e.fnByKey {
		fns = append(fns, fn)
	}
	sort.Slice(fns, func(i, j int) bool { return rawFnName(fns[i]) < rawFnName(fns[j]) })
	for _, key := range pending {
		fc := e.contracts.funcs[key]
		b := base[key]
		want := nameSet(b.Params, b.FreeVars)
		pkg := key
		if i := strings.Index(pkg, "."); i >= 0 {
			pkg = pkg[:i]
		}
		var cands []*ssa.Function
		for _, g := range fns {
			if claimed[g] || !e.isRepoFn(g) || len(g.Blocks) == 0 {
				continue
			}
			raw := rawFnName(g)
			if !strings.HasPrefix(raw, pkg+".") {
				continue
			}
			if other := e.contracts.funcs[raw]; other != nil && !pendingSet[raw] {
				continue // has a contract of its own that fits it
			}
			if strings.Contains(raw, "$") && rootOf(raw) != rootOf(key) {
				continue // a closure of some other function
			}
			if g.Signature.Results().Len() != b.Results {
				continue
			}
			sh := e.shapeOf(g)
			if nameSet(sh.Params, sh.FreeVars) == want {
				cands = append(cands, g)
			}
		}
		if len(cands) != 1 && len(baseNames.Locals[key]) > 0 {
			// second stage: the same multiset of parameter / captured-variable types (names may have changed)
			typeOf := map[string]string{}
			for _, nt := range baseNames.Locals[key] {
				typeOf[nt[0]] = nt[1]
			}
			var wantT []string
			for _, n := range append(append([]string{}, b.Params...), b.FreeVars...) {
				wantT = append(wantT, typeOf[n])
			}
			sort.Strings(wantT)
			cands = nil
			for _, g := range fns {
				if claimed[g] || !e.isRepoFn(g) || len(g.Blocks) == 0 {
					continue
				}
				raw := rawFnName(g)
				if !strings.HasPrefix(raw, pkg+".") {
					continue
				}
				if other := e.contracts.funcs[raw]; other != nil && !pendingSet[raw] {
					continue
				}
				if strings.Contains(raw, "$") && rootOf(raw) != rootOf(key) {
					continue
				}
				if g.Signature.Results().Len() != b.Results {
					continue
				}
				var gotT []string
				for _, p := range g.Params {
					gotT = append(gotT, types.TypeString(p.Type(), nil))
				}
				for _, fv := range g.FreeVars {
					t := fv.Type()
					if pt, ok := t.(*types.Pointer); ok {
						t = pt.Elem()
					}
					gotT = append(gotT, types.TypeString(t, nil))
				}
				sort.Strings(gotT)
				if len(gotT) > 0 && strings.Join(gotT, "|") == strings.Join(wantT, "|") {
					cands = append(cands, g)
				}
			}
		}
		if len(cands) == 1 {
			g := cands[0]
			claimed[g] = true
			fc.Rebound = rawFnName(g)
			fnNameOverride[g] = key
			if len(fc.Params) > 0 {
				sh := e.shapeOf(g)
				same := len(sh.Params) == len(b.Params)
				for i := 0; same && i < len(sh.Params); i++ {
					same = sh.Params[i] == b.Params[i]
				}
				if !same {
					fc.Params = nil // the names now denote parameters / captured variables by name
				}
			}
		} else {
			fc.Detached = true // provisional, see below
		}
	}
	// a contract that found no other function stays with the function under its own key unless that
	// function was claimed by another contract (then it describes code that no longer exists here)
	for _, key := range pending {
		fc := e.contracts.funcs[key]
		if !fc.Detached {
			continue
		}
		if fn := e.fnByKey[key]; fn != nil && !claimed[fn] {
			fc.Detached = false
			claimed[fn] = true
		}
	}
	// rebuild the function table under the (possibly overridden) names
	nb := map[string]*ssa.Function{}
	for _, fn := range fns {
		nb[qualFnName(fn)] = fn
	}
	for _, key := range pending {
		if e.contracts.funcs[key].Detached {
			if strings.Contains(key, "$") && nb[key] == nil {
				// a closure that no longer exists under its parent was restructured away (a named function
				// that disappears, in contrast, is simply no longer called)
				e.contracts.funcs[key].DetachedAmbiguous = true
			}
			if fn := nb[key]; fn != nil && !claimed[fn] {
				// the function now found under this key is not the one the contract describes
				e.contracts.funcs[key].DetachedAmbiguous = true
				delete(nb, key)
				nb[key+"~unmatched"] = fn
				fnNameOverride[fn] = key + "~unmatched"
			}
		}
	}
	e.fnByKey = nb
}

// loopSigs returns the source form of the header of every loop of fn (not of its closures), in the
// order in which loop ordinals are assigned, or nil if the loops of the syntax tree cannot be put in
// correspondence with the loops of the SSA form.
func (e *Engine) loopSigs(fn *ssa.Function, nloops int) []string {
	syn := fn.Syntax()
	if syn == nil || nloops == 0 {
		return nil
	}
	// nloops < 0: all loop statements of the source, whether or not they are loops of the SSA form
	var body *ast.BlockStmt
	switch x := syn.(type) {
	case *ast.FuncDecl:
		body = x.Body
	case *ast.FuncLit:
		body = x.Body
	}
	if body == nil {
		return nil
	}
	var sigs []string
	str := func(n ast.Node) string {
		if n == nil || reflect.ValueOf(n).IsNil() {
			return ""
		}
		var sb strings.Builder
		printer.Fprint(&sb, e.prog.Fset, n)
		return strings.Join(strings.Fields(sb.String()), " ")
	}
	ast.Inspect(body, func(n ast.Node) bool {
		switch x := n.(type) {
		case *ast.FuncLit:
			return false
		case *ast.RangeStmt:
			sigs = append(sigs, "range "+str(x.Key)+","+str(x.Value)+" := "+str(x.X))
		case *ast.ForStmt:
			sigs = append(sigs, "for "+str(x.Init)+"; "+str(x.Cond)+"; "+str(x.Post))
		}
		return true
	})
	if nloops >= 0 && len(sigs) != nloops {
		return nil
	}
	return sigs
}

// remapLoops translates the loop ordinals used in a contract (which are those of the baseline) into the
// ordinals of the same loops in the current tree, identified by the source form of their headers; a
// baseline loop without a counterpart gets an ordinal that does not exist (its clauses are then
// reported as written for different code).
func (e *Engine) remapLoops(base map[string]Shape) {
	for key, fc := range e.contracts.funcs {
		if fc.Assumed {
			continue
		}
		b, ok := base[key]
		fn := e.fnByKey[key]
		if !ok || fn == nil || len(fn.Blocks) == 0 || len(b.LoopSigs) == 0 {
			continue
		}
		cur := e.shapeOf(fn)
		if len(cur.LoopSigs) == 0 {
			continue
		}
		same := len(cur.LoopSigs) == len(b.LoopSigs)
		for i := 0; same && i < len(b.LoopSigs); i++ {
			same = b.LoopSigs[i] == cur.LoopSigs[i]
		}
		if same {
			continue
		}
		used := map[int]bool{}
		m := map[int]int{}
		for i, sig := range b.LoopSigs {
			m[i+1] = 1000 + i + 1
			for j, cs := range cur.LoopSigs {
				if cs == sig && !used[j] {
					used[j] = true
					m[i+1] = j + 1
					break
				}
			}
		}
		// loops whose header was edited: if as many baseline loops as current loops remain unmatched,
		// they correspond in order
		var ub, uc []int
		for i := range b.LoopSigs {
			if m[i+1] >= 1000 {
				ub = append(ub, i)
			}
		}
		for j := range cur.LoopSigs {
			if !used[j] {
				uc = append(uc, j)
			}
		}
		if len(ub) == len(uc) {
			for x := range ub {
				m[ub[x]+1] = uc[x] + 1
			}
		}
		tr := func(n int) int {
			if n == 0 {
				return 0
			}
			if v, ok := m[n]; ok {
				return v
			}
			return 1000 + n
		}
		ninv := map[int][]*Clause{}
		for n, cls := range fc.LoopInv {
			ninv[tr(n)] = append(ninv[tr(n)], cls...)
		}
		fc.LoopInv = ninv
		if fc.Unroll != nil {
			nu := map[int]int{}
			for n, k := range fc.Unroll {
				nu[tr(n)] = k
			}
			fc.Unroll = nu
		}
		for _, t := range fc.Traces {
			t.Loop = tr(t.Loop)
		}
		fc.LoopsRemapped = true
		fc.LoopName = map[int]int{}
		for bn, cn := range m {
			fc.LoopName[cn] = bn
		}
	}
}

// loopLabel: the ordinal under which obligations about a loop are named (the contract's own numbering,
// so that names are stable when loops are added in front of it).
func (e *Engine) loopLabel(fn *ssa.Function, ord int) int {
	if fc := e.contracts.funcs[qualFnName(fn)]; fc != nil && fc.LoopName != nil {
		if b, ok := fc.LoopName[ord]; ok {
			return b
		}
		return 2000 + ord // a loop the contract does not know
	}
	return ord
}

// ---------------------------------------------------------------------------------------------
// Renamed locals, parameters, captured variables and struct fields. The baseline records the
// names and types the contracts were written against; a name that has disappeared is resolved to the
// new name of the same type that has appeared in its place (in order, when several of one type were
// renamed). The resolution is heuristic: obligations that fail where it was used are undecided.

type baselineNames struct {
	Structs    map[string][][2]string    `json:"structs"`
	Locals     map[string][][2]string    `json:"locals"`
	InitConsts []string                  `json:"init_consts"` // package-level variables whose init-time value the engine extracts
	SafeCounts map[string]map[string]int `json:"safe_counts"` // function -> class of run-time check ("nil", "index", "panic", ...) -> how many the function has
	Uncontracted map[string][]string `json:"uncontracted_calls,omitempty"` // function -> callees it calls for which there is neither a body under analysis nor a contract
}

func (e *Engine) orderedLocals(fn *ssa.Function) [][2]string {
	var out [][2]string
	seen := map[string]bool{}
	add := func(name string, t types.Type) {
		if name == "" || name == "_" || seen[name] || t == nil {
			return
		}
		seen[name] = true
		out = append(out, [2]string{name, types.TypeString(t, nil)})
	}
	for _, p := range fn.Params {
		add(p.Name(), p.Type())
	}
	for _, fv := range fn.FreeVars {
		t := fv.Type()
		if pt, ok := t.(*types.Pointer); ok {
			t = pt.Elem()
		}
		add(fv.Name(), t)
	}
	for _, b := range fn.Blocks {
		for _, in := range b.Instrs {
			switch x := in.(type) {
			case *ssa.DebugRef:
				if obj := x.Object(); obj != nil {
					if v, ok := obj.(*types.Var); ok && !v.IsField() && !(obj.Pkg() != nil && obj.Parent() == obj.Pkg().Scope()) {
						add(obj.Name(), obj.Type())
					}
				}
			case *ssa.Alloc:
				if x.Comment != "" && x.Comment != "complit" && x.Comment != "varargs" && !strings.Contains(x.Comment, " ") {
					add(x.Comment, x.Type().Underlying().(*types.Pointer).Elem())
				}
			}
		}
	}
	return out
}

func (e *Engine) currentNames() baselineNames {
	bn := baselineNames{Structs: map[string][][2]string{}, Locals: map[string][][2]string{}, SafeCounts: map[string]map[string]int{}, Uncontracted: map[string][]string{}}
	for k := range e.initConsts {
		bn.InitConsts = append(bn.InitConsts, k)
	}
	sort.Strings(bn.InitConsts)
	for k, fn := range e.fnByKey {
		if e.isRepoFn(fn) && len(fn.Blocks) > 0 {
			bn.SafeCounts[k] = safeCounts(fn)
			if u := e.uncontractedCalls(fn); len(u) > 0 {
				bn.Uncontracted[k] = u
			}
		}
	}
	for k, fn := range e.fnByKey {
		if e.isRepoFn(fn) && len(fn.Blocks) > 0 {
			bn.Locals[k] = e.orderedLocals(fn)
		}
	}
	for _, p := range e.pkgs {
		if p.Types == nil || !e.repoPkgPaths[p.Types.Path()] {
			continue
		}
		sc := p.Types.Scope()
		for _, n := range sc.Names() {
			tn, ok := sc.Lookup(n).(*types.TypeName)
			if !ok {
				continue
			}
			st, ok := tn.Type().Underlying().(*types.Struct)
			if !ok {
				continue
			}
			var fs [][2]string
			for i := 0; i < st.NumFields(); i++ {
				fs = append(fs, [2]string{st.Field(i).Name(), types.TypeString(st.Field(i).Type(), nil)})
			}
			bn.Structs[p.Types.Name()+"."+n] = fs
		}
	}
	return bn
}

func aliasNames(base, cur [][2]string) map[string]string {
	cn, bnm := map[string]bool{}, map[string]bool{}
	for _, c := range cur {
		cn[c[0]] = true
	}
	for _, b := range base {
		bnm[b[0]] = true
	}
	missing := map[string][]string{}
	added := map[string][]string{}
	for _, b := range base {
		if !cn[b[0]] {
			missing[b[1]] = append(missing[b[1]], b[0])
		}
	}
	for _, c := range cur {
		if !bnm[c[0]] {
			added[c[1]] = append(added[c[1]], c[0])
		}
	}
	out := map[string]string{}
	for t, ms := range missing {
		as := added[t]
		if len(as) == len(ms) {
			for i := range ms {
				out[ms[i]] = as[i]
			}
		}
	}
	return out
}

func (e *Engine) computeAliases(verif string) {
	e.fieldAlias = map[string]string{}
	e.localAlias = map[string]map[string]string{}
	e.aliasUsed = map[string]bool{}
	data, err := os.ReadFile(filepath.Join(verif, "baseline_names.json"))
	if err != nil || os.Getenv("GOVC_NO_REBIND") != "" {
		return
	}
	var base baselineNames
	if json.Unmarshal(data, &base) != nil {
		return
	}
	e.baseNames = base
	cur := e.currentNames()
	for tk, bf := range base.Structs {
		if cf, ok := cur.Structs[tk]; ok {
			for o, n := range aliasNames(bf, cf) {
				e.fieldAlias[tk+"."+o] = n
			}
		}
	}
	for fk, bl := range base.Locals {
		if e.contracts.funcs[fk] == nil {
			continue
		}
		if cl, ok := cur.Locals[fk]; ok {
			if m := aliasNames(bl, cl); len(m) > 0 {
				e.localAlias[fk] = m
			}
		}
	}
	// declarations that name fields: guards, lock levels, lock invariants, under-lock, trusted access
	fa := func(typeKey, field string) string {
		if n, ok := e.fieldAlias[typeKey+"."+field]; ok {
			return n
		}
		return field
	}
	for _, g := range e.contracts.guards {
		for i, f := range g.Fields {
			g.Fields[i] = fa(g.Struct, f)
		}
		if g.Class == "mutex" {
			g.Mutex = fa(g.Struct, g.Mutex)
		} else if g.Class == "under" {
			if k := strings.LastIndex(g.Mutex, "."); k > 0 {
				g.Mutex = g.Mutex[:k] + "." + fa(g.Mutex[:k], g.Mutex[k+1:])
			}
		}
	}
	rekey := func(key string) string {
		if k := strings.LastIndex(key, "."); k > 0 {
			return key[:k] + "." + fa(key[:k], key[k+1:])
		}
		return key
	}
	nl := map[string]int{}
	for k, v := range e.contracts.lockLevels {
		nl[rekey(k)] = v
	}
	e.contracts.lockLevels = nl
	ni := map[string]*LockInv{}
	for k, v := range e.contracts.lockInvs {
		nk := rekey(k)
		if nk != k {
			v.Mutex = nk[strings.LastIndex(nk, ".")+1:]
		}
		ni[nk] = v
	}
	e.contracts.lockInvs = ni
	for _, fc := range e.contracts.funcs {
		for i := range fc.UnderLock {
			fc.UnderLock[i].Key = rekey(fc.UnderLock[i].Key)
		}
		if len(fc.TrustedAccess) > 0 {
			nt := map[string]string{}
			for k, v := range fc.TrustedAccess {
				nt[rekey(k)] = v
			}
			fc.TrustedAccess = nt
		}
	}
}

// fieldNameFor resolves a field name used in a contract against the current struct.
func (e *Engine) fieldNameFor(owner types.Type, name string) string {
	if len(e.fieldAlias) == 0 || owner == nil {
		return name
	}
	if n, ok := e.fieldAlias[shortTypeKey(owner)+"."+name]; ok {
		return n
	}
	return name
}

// safeCounts: how many run-time checks of each class a function's SSA contains (the safety obligations
// the engine generates for it are one per such instruction, plus bounds per slice / index expression).
func safeCounts(fn *ssa.Function) map[string]int {
	m := map[string]int{}
	for _, b := range fn.Blocks {
		for _, in := range b.Instrs {
			switch x := in.(type) {
			case *ssa.Panic:
				m["panic"]++
			case *ssa.FieldAddr, *ssa.Field:
				m["nil"]++
			case *ssa.IndexAddr, *ssa.Index, *ssa.Lookup:
				m["index"]++
			case *ssa.Slice:
				m["slice"]++
			case *ssa.TypeAssert:
				if !x.CommaOk {
					m["assert"]++
				}
			case *ssa.UnOp:
				if x.Op == token.MUL {
					m["nil"]++
				}
			case *ssa.Store:
				m["nil"]++
			case *ssa.MapUpdate:
				m["mapwrite"]++
			case *ssa.Call:
				m["call"]++
			case *ssa.BinOp:
				if x.Op == token.QUO || x.Op == token.REM {
					m["div"]++
				}
			case *ssa.Convert:
				m["conv"]++
			case *ssa.Send:
				m["send"]++
			}
		}
	}
	return m
}

// uncontractedCalls lists the callees of fn that the engine can only treat as opaque: no contract (own or
// assumed), not a repo function with a body, not one of the logging / formatting functions.
func (e *Engine) uncontractedCalls(fn *ssa.Function) []string {
	seen := map[string]bool{}
	for _, b := range fn.Blocks {
		for _, in := range b.Instrs {
			var cc *ssa.CallCommon
			switch x := in.(type) {
			case *ssa.Call:
				cc = &x.Call
			case *ssa.Defer:
				cc = &x.Call
			case *ssa.Go:
				cc = &x.Call
			}
			if cc == nil {
				continue
			}
			n := calleeName(cc)
			if n == "" || benignOpaque(n) || e.contracts.funcs[n] != nil || e.contracts.dispatch[n] != "" {
				continue
			}
			if callee := cc.StaticCallee(); callee != nil && e.isRepoFn(callee) && len(callee.Blocks) > 0 {
				continue
			}
			seen[n] = true
		}
	}
	return sortedBools(seen)
}

// newUncontractedCall: a callee of fn without contract that the baseline version of fn did not call.
func (e *Engine) newUncontractedCall(key string) string {
	fn := e.fnByKey[key]
	if fn == nil || e.baseNames.Uncontracted == nil {
		return ""
	}
	old := map[string]bool{}
	for _, n := range e.baseNames.Uncontracted[key] {
		old[n] = true
	}
	for _, n := range e.uncontractedCalls(fn) {
		if !old[n] {
			return n
		}
	}
	return ""
}

// fnRefsLostConst: does fn read a package-level variable whose init-time value the baseline knew and
// this tree no longer yields (its initialiser was rewritten)?
func (e *Engine) fnRefsLostConst(fn *ssa.Function) string {
	if fn == nil || len(e.lostConsts) == 0 {
		return ""
	}
	for _, b := range fn.Blocks {
		for _, in := range b.Instrs {
			var ops []*ssa.Value
			for _, op := range in.Operands(ops) {
				if g, ok := (*op).(*ssa.Global); ok && g.Pkg != nil {
					if k := g.Pkg.Pkg.Path() + "." + g.Name(); e.lostConsts[k] {
						return k
					}
				}
			}
		}
	}
	return ""
}
