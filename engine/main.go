package main

import (
	"encoding/json"
	"flag"
	"fmt"
	"os"
	"path/filepath"
	"go/types"
	"regexp"
	"runtime"
	"sort"
	"strconv"
	"strings"
	"time"

	"golang.org/x/tools/go/ssa"
)

func envWithout(name string) []string {
	var out []string
	for _, kv := range os.Environ() {
		if !strings.HasPrefix(kv, name+"=") {
			out = append(out, kv)
		}
	}
	return out
}

type KnownFinding struct {
	Kind       string // "finding" or "fixed"
	Property   string
	Obligation string // regexp on obligation name (findings)
	Text       string
}

func loadKnownFindings(path string) []KnownFinding {
	data, err := os.ReadFile(path)
	if err != nil {
		return nil
	}
	var out []KnownFinding
	for _, l := range strings.Split(string(data), "\n") {
		l = strings.TrimSpace(l)
		if l == "" || strings.HasPrefix(l, "#") {
			continue
		}
		kf := KnownFinding{}
		switch {
		case strings.HasPrefix(l, "finding:"):
			kf.Kind = "finding"
			l = strings.TrimSpace(l[len("finding:"):])
		case strings.HasPrefix(l, "fixed:"):
			kf.Kind = "fixed"
			l = strings.TrimSpace(l[len("fixed:"):])
		default:
			continue
		}
		for _, f := range strings.Fields(l) {
			if strings.HasPrefix(f, "property=") {
				kf.Property = f[len("property="):]
			} else if strings.HasPrefix(f, "obligation=") {
				kf.Obligation = f[len("obligation="):]
			}
		}
		kf.Text = l
		out = append(out, kf)
	}
	return out
}

func hasProp(ps []string, p string) bool {
	for _, q := range ps {
		if q == p {
			return true
		}
	}
	return false
}

var nonFile = regexp.MustCompile(`[^A-Za-z0-9_.-]+`)

func main() {
	if len(os.Args) < 2 {
		fmt.Println("usage: govc check <property> [quick|thorough] | govc dump <function-key> | govc list")
		os.Exit(2)
	}
	verif := os.Getenv("VERIF_DIR")
	if verif == "" {
		verif = "/verif"
	}
	repo := os.Getenv("VERIF_REPO")
	if repo == "" {
		repo = "/repo"
	}
	switch os.Args[1] {
	case "check":
		fs := flag.NewFlagSet("check", flag.ExitOnError)
		verbose := fs.Bool("v", false, "print every obligation")
		fs.Parse(os.Args[2:])
		rest := fs.Args()
		if len(rest) < 1 {
			fmt.Println("usage: govc check [-v] <property> [tier]")
			os.Exit(2)
		}
		tier := "quick"
		if len(rest) > 1 {
			tier = rest[1]
		}
		os.Exit(runCheck(repo, verif, rest[0], tier, *verbose))
	case "dump":
		e, err := NewEngine(repo, verif)
		if err != nil {
			fmt.Println("load error:", err)
			os.Exit(2)
		}
		fc := e.contracts.funcs[os.Args[2]]
		if fc == nil {
			fc = &FuncContract{Key: os.Args[2], LoopInv: map[int][]*Clause{}, Props: []string{"C18"}}
		}
		r := e.verifyFunction(fc)
		scratch, _ := os.MkdirTemp("/var/tmp", "govc.")
		defer os.RemoveAll(scratch)
		solveAll(r.Obls, 10, runtime.NumCPU(), scratch, false)
		for _, o := range r.Obls {
			fmt.Printf("%-12s %-10s %s  [%s] %s\n", o.Verdict, o.Backend, o.Name, o.Pos, o.Note)
			if len(os.Args) > 3 && o.Verdict != "unsat" && o.Verdict != "syntactic" {
				fmt.Println(o.smt(true))
				fmt.Println(o.Model)
			}
		}
		for _, u := range r.Undecided {
			fmt.Println("UNDECIDED:", u)
		}
		fmt.Printf("paths=%d returns=%d opaque=%v\n", r.Paths, r.Returns, r.Opaque)
	case "sweep":
		e, err := NewEngine(repo, verif)
		if err != nil {
			fmt.Println("load error:", err)
			os.Exit(2)
		}
		re := regexp.MustCompile(os.Args[2])
		scratch, _ := os.MkdirTemp("/var/tmp", "govc.")
		defer os.RemoveAll(scratch)
		for _, k := range sortedKeys(e.fnByKey) {
			if (!e.isRepoFn(e.fnByKey[k]) && os.Getenv("GOVC_ALL") == "") || !re.MatchString(k) || strings.Contains(k, "$bound") || strings.Contains(k, "$thunk") {
				continue
			}
			fc := e.contracts.funcs[k]
			if fc == nil {
				fc = &FuncContract{Key: k, LoopInv: map[int][]*Clause{}, Props: []string{"C18"}}
			}
			func() {
				defer func() {
					if r := recover(); r != nil {
						fmt.Printf("== %s: ENGINE PANIC %v\n", k, r)
					}
				}()
				t1 := time.Now()
				r := e.verifyFunction(fc)
				solveAll(r.Obls, 10, runtime.NumCPU(), scratch, false)
				bad := 0
				for _, o := range r.Obls {
					ok := o.Verdict == "unsat" || o.Verdict == "syntactic"
					if o.Kind == "cover" {
						ok = o.Verdict == "sat"
					}
					if !ok {
						bad++
					}
				}
				fmt.Printf("== %s: obls=%d bad=%d paths=%d returns=%d undecided=%d %.1fs\n", k, len(r.Obls), bad, r.Paths, r.Returns, len(r.Undecided), time.Since(t1).Seconds())
				seen := map[string]bool{}
				for _, o := range r.Obls {
					ok := o.Verdict == "unsat" || o.Verdict == "syntactic"
					if o.Kind == "cover" {
						ok = o.Verdict == "sat"
					}
					if !ok && !seen[o.Name] {
						seen[o.Name] = true
						fmt.Printf("   %-8s %s [%s] %s\n", o.Verdict, o.Name, o.Pos, o.Note)
					}
				}
				for _, u := range r.Undecided {
					fmt.Println("   UNDECIDED:", u)
				}
			}()
		}
	case "required":
		// govc required : regenerate required_obligations.json from the current tree
		e, err := NewEngine(repo, verif)
		if err != nil {
			fmt.Println("load error:", err)
			os.Exit(2)
		}
		req := map[string][]string{}
		for i := 1; i <= 20; i++ {
			p := fmt.Sprintf("C%02d", i)
			req[p] = listObligations(e, p)
		}
		data, _ := json.MarshalIndent(req, "", " ")
		os.WriteFile(filepath.Join(verif, "required_obligations.json"), data, 0o644)
		sdata, _ := json.MarshalIndent(e.shapes(), "", " ")
		os.WriteFile(filepath.Join(verif, "baseline_shapes.json"), sdata, 0o644)
		ndata, _ := json.MarshalIndent(e.currentNames(), "", " ")
		os.WriteFile(filepath.Join(verif, "baseline_names.json"), ndata, 0o644)
		for _, p := range sortedKeys(req) {
			fmt.Println(p, len(req[p]))
		}
	case "sigs":
		// govc sigs : parameter names (receiver first) of every repo function, as JSON
		e, err := NewEngine(repo, verif)
		if err != nil {
			fmt.Println("load error:", err)
			os.Exit(2)
		}
		out := map[string][]string{}
		for k, fn := range e.fnByKey {
			if !e.isRepoFn(fn) {
				continue
			}
			names := []string{}
			for _, p := range fn.Params {
				names = append(names, p.Name())
			}
			out[k] = names
		}
		data, _ := json.MarshalIndent(out, "", " ")
		fmt.Println(string(data))
	case "unpinned":
		// govc unpinned : call sites in functions under contract that no rule of that contract mentions
		// (a review aid: candidates for argument / ordering rules; not part of any check)
		e, err := NewEngine(repo, verif)
		if err != nil {
			fmt.Println("load error:", err)
			os.Exit(2)
		}
		listUnpinned(e)
	case "callees":
		e, err := NewEngine(repo, verif)
		if err != nil {
			fmt.Println("load error:", err)
			os.Exit(2)
		}
		listCallees(e)
	case "list":
		e, err := NewEngine(repo, verif)
		if err != nil {
			fmt.Println("load error:", err)
			os.Exit(2)
		}
		for _, k := range sortedKeys(e.fnByKey) {
			if e.isRepoFn(e.fnByKey[k]) {
				fmt.Println(k)
			}
		}
	}
}

type evidence struct {
	PropertyID  string                 `json:"property_id"`
	Tier        string                 `json:"tier"`
	Seed        int                    `json:"seed"`
	Level       string                 `json:"level"`
	Coverage    map[string]interface{} `json:"coverage"`
	Assumptions []string               `json:"assumptions"`
	WallS       float64                `json:"wall_s"`
	Violations  int                    `json:"violations"`
}

func runCheck(repo, verif, prop, tier string, verbose bool) int {
	t0 := time.Now()
	seed, _ := strconv.Atoi(os.Getenv("VERIF_SEED"))
	outDir := verif
	if o := os.Getenv("VERIF_OUT"); o != "" {
		outDir = o // self-tests on scratch copies must not overwrite the real evidence
	}
	evPath := filepath.Join(outDir, "evidence", prop+".json")
	os.MkdirAll(filepath.Join(outDir, "evidence"), 0o755)
	os.Remove(evPath)
	e, err := NewEngine(repo, verif)
	if err != nil {
		// the tree does not load or a contract does not parse: not decided
		fmt.Printf("UNDECIDED property=%s reason=%q\n", prop, err.Error())
		writeUndecided(evPath, prop, tier, seed, err.Error(), time.Since(t0).Seconds())
		return 2
	}
	loadS := time.Since(t0).Seconds()
	fcs := e.functionsForProperty(prop)
	implicit := map[string]bool{}
	if prop == "C19" {
		// data-race freedom concerns every function that touches guarded state, whether or not its
		// contract says so: all functions under contract are examined, and their guard / atomicity
		// obligations (which carry C19) are collected
		have := map[string]bool{}
		for _, fc := range fcs {
			have[fc.Key] = true
		}
		for _, k := range sortedKeys(e.contracts.funcs) {
			fc := e.contracts.funcs[k]
			if !fc.Assumed && !have[k] && e.fnByKey[k] != nil {
				fcs = append(fcs, fc)
				implicit[k] = true
			}
		}
	}
	if len(fcs) == 0 {
		fmt.Printf("UNDECIDED property=%s reason=%q\n", prop, "no function under contract lists this property")
		writeUndecided(evPath, prop, tier, seed, "no function under contract", time.Since(t0).Seconds())
		return 2
	}
	var all []*Obligation
	var undecided []string
	for _, w := range e.loadWarnings {
		// a lock-discipline declaration that no longer matches the code leaves that discipline unchecked
		switch prop {
		case "C10", "C11", "C12", "C13", "C17", "C19":
			undecided = append(undecided, w)
		}
	}
	evalErrFns := map[string]bool{}
	baseShapes := map[string]Shape{}
	if data, err := os.ReadFile(filepath.Join(verif, "baseline_shapes.json")); err == nil {
		json.Unmarshal(data, &baseShapes)
	}
	opaque := map[string]bool{}
	assumed := map[string]bool{}
	inlined := map[string]bool{}
	notes := map[string]bool{}
	var fnKeys []string
	var depVerified []string
	paths := 0
	perFn := map[string]int{}
	for _, fc := range fcs {
		if fc.Detached {
			undecided = append(undecided, "the contract of "+fc.Key+" no longer matches any function of this tree (its captured variables / parameters changed): what it decides is undecided")
			continue
		}
		if fc.Rebound != "" {
			notes["contract "+fc.Key+" re-bound to "+fc.Rebound+" (matched by captured variables and parameters)"] = true
		}
		r := e.verifyFunction(fc)
		fnKeys = append(fnKeys, fc.Key)
		if fc.DepVerified {
			depVerified = append(depVerified, fc.Key)
		}
		paths += r.Returns
		n := 0
		for _, o := range r.Obls {
			if hasProp(o.Props, prop) {
				all = append(all, o)
				n++
			}
		}
		perFn[fc.Key] = n
		if n == 0 && !implicit[fc.Key] {
			undecided = append(undecided, "function "+fc.Key+" generated no obligation for "+prop+" (vacuity guard)")
		}
		for _, u := range r.Undecided {
			undecided = append(undecided, fc.Key+": "+u)
			// the contract names something the code no longer has (static mismatch), as opposed to a rule
			// that refers to an event which does not occur on some path (which a deletion can cause)
			// (only errors in preconditions and in callee contracts at call sites: they leave the premises
			// of the whole function unknown; an unevaluable rule of its own only loses that rule)
			for _, pat := range []string{"unknown identifier", "selector .", "cannot index", "has no field", "no field", "numeric selector", "not a tuple", "compared with nil"} {
				if strings.HasPrefix(u, "contract ") && strings.Contains(u, pat) && !strings.Contains(u, "(in \"loop ") {
					evalErrFns[fc.Key] = true
				}
				// an unevaluable loop invariant is a lost assumption: nothing after the loop is proved
				if strings.HasPrefix(u, "loop invariant of "+fc.Key+":") && strings.Contains(u, pat) {
					evalErrFns[fc.Key] = true
				}
				// so is an unevaluable lock invariant (assumed at every acquisition)
				if strings.HasPrefix(u, "lock invariant ") && strings.Contains(u, pat) {
					evalErrFns[fc.Key] = true
				}
			}
		}
		for _, x := range r.Opaque {
			opaque[x] = true
		}
		for _, x := range r.Assumed {
			assumed[x] = true
		}
		for _, x := range r.Inlined {
			inlined[x] = true
		}
		for _, x := range r.Notes {
			notes[x] = true
		}
	}
	if prop == "C20" {
		tobls, tnotes := e.taintObligations()
		all = append(all, tobls...)
		for _, n := range tnotes {
			notes[n] = true
		}
		if len(tobls) == 0 {
			undecided = append(undecided, "information-flow analysis found no sink argument to check (vacuity guard)")
		}
		perFn["<information flow over all collector functions>"] = len(tobls)
	}
	for _, fd := range e.contracts.frozen {
		if !hasProp(fd.Props, prop) {
			continue
		}
		// no code of the repository assigns this variable of another package (an assumed contract rests on it)
		offender, pos := "", ""
		for _, k := range sortedKeys(e.fnByKey) {
			fn := e.fnByKey[k]
			if !e.isRepoFn(fn) {
				continue
			}
			for _, b := range fn.Blocks {
				for _, in := range b.Instrs {
					if st, ok := in.(*ssa.Store); ok {
						if g, ok := st.Addr.(*ssa.Global); ok && g.Pkg != nil && g.Pkg.Pkg.Path()+"."+g.Name() == fd.Global && offender == "" {
							offender, pos = k, posOf(e.prog, st)
						}
					}
				}
			}
		}
		o := &Obligation{Name: "frozen:" + fd.Global, Fn: offender, Kind: "structure", Goal: BoolLit(offender == ""), Pos: pos, Props: fd.Props,
			Note: "no code of the repository assigns " + fd.Global + " (" + fd.Note + ")", Backend: "structural", decls: NewDecls()}
		if offender == "" {
			o.Verdict = "syntactic"
		} else {
			o.Verdict = "structural-fail"
			o.Note += ": assigned in " + offender
		}
		all = append(all, o)
		perFn["<frozen variables of other packages>"]++
	}
	validated := 0
	if tier == "thorough" && (prop == "C05" || prop == "C20") {
		nval, verr := validateNetTranscriptions(int64(seed)+1, 300)
		validated = nval
		if verr != nil {
			undecided = append(undecided, "assumed contract failed validation by execution: "+verr.Error())
		}
	}
	genS := time.Since(t0).Seconds() - loadS
	timeout := 10
	cross := false
	if tier == "thorough" {
		timeout = 60
		cross = true
	}
	scratch, _ := os.MkdirTemp("/var/tmp", "govc.")
	defer os.RemoveAll(scratch)
	st := solveAll(all, timeout, runtime.NumCPU(), scratch, cross)
	// an obligation no solver decided within the time limit (machine load, an unlucky search) is tried again
	// on its own with a much longer limit before anything is concluded from it
	var again []*Obligation
	for _, o := range all {
		if o.Verdict == "unknown" && o.Kind != "cover" {
			o.Verdict, o.Model = "", ""
			again = append(again, o)
		}
	}
	if len(again) > 0 {
		st2 := solveAll(again, timeout*6, 4, scratch, false)
		st.Queries += st2.Queries
		for k, v := range st2.Seconds {
			st.Seconds[k] += v
		}
		for k, v := range st2.ByBackend {
			st.ByBackend[k] += v
		}
	}

	// group by name
	type group struct {
		name      string
		instances []*Obligation
		failed    []*Obligation
		cover     bool
	}
	groups := map[string]*group{}
	var order []string
	for _, o := range all {
		g := groups[o.Name]
		if g == nil {
			g = &group{name: o.Name, cover: o.Kind == "cover"}
			groups[o.Name] = g
			order = append(order, o.Name)
		}
		g.instances = append(g.instances, o)
		ok := o.Verdict == "unsat" || o.Verdict == "syntactic"
		if o.Kind == "cover" {
			ok = o.Verdict == "sat"
		}
		if !ok {
			g.failed = append(g.failed, o)
		}
	}
	// required obligations (vacuity guard c)
	reqFile := filepath.Join(verif, "required_obligations.json")
	if data, err := os.ReadFile(reqFile); err == nil {
		var req map[string][]string
		if json.Unmarshal(data, &req) == nil {
			for _, name := range req[prop] {
				if groups[name] == nil {
					undecided = append(undecided, "required obligation was not generated: "+name)
				}
			}
		}
	}
	// Second chance for closures: a closure is verified on its own against unconstrained captured
	// variables; when that fails, its rules are decided again in the context of the function that
	// creates it (inlined at its call / go sites, with the values it actually captures).
	ctxDischarged := map[string]bool{}
	{
		byClosure := map[string][]string{}
		for _, name := range order {
			g := groups[name]
			if len(g.failed) == 0 || g.cover {
				continue
			}
			owner := name
			if i := strings.Index(owner, "/"); i >= 0 {
				owner = owner[:i]
			}
			if fn := e.fnByKey[owner]; fn != nil && fn.Parent() != nil && e.contracts.funcs[owner] != nil && g.failed[0].Fn == owner && closureUsedOnlyInPlace(fn) {
				byClosure[owner] = append(byClosure[owner], name)
			}
		}
		for _, ck := range sortedKeys(byClosure) {
			parent := e.fnByKey[ck].Parent()
			pk := qualFnName(parent)
			pfc := e.contracts.funcs[pk]
			if pfc == nil {
				pfc = &FuncContract{Key: pk, Props: []string{prop}, LoopInv: map[int][]*Clause{}}
			}
			r2 := e.verifyFunctionIn(pfc, map[string]bool{ck: true})
			var sub []*Obligation
			for _, o := range r2.Obls {
				if strings.HasPrefix(o.Name, ck+"/") {
					sub = append(sub, o)
				}
			}
			if os.Getenv("GOVC_DEBUG_INCTX") != "" {
				fmt.Printf("in-context: closure %s in %s: %d obligations (%d total in parent run), undecided=%v\n", ck, pk, len(sub), len(r2.Obls), r2.Undecided)
			}
			if len(sub) == 0 {
				continue
			}
			solveAll(sub, timeout, runtime.NumCPU(), scratch, false)
			if os.Getenv("GOVC_DEBUG_INCTX") != "" {
				for _, o := range sub {
					fmt.Printf("   %s %s\n", o.Verdict, o.Name)
				}
			}
			for _, name := range byClosure[ck] {
				n, bad := 0, 0
				for _, o := range sub {
					if o.Name == name {
						n++
						if !(o.Verdict == "unsat" || o.Verdict == "syntactic") {
							bad++
						}
					}
				}
				if n > 0 && bad == 0 {
					ctxDischarged[name] = true
					notes["obligation "+name+" discharged in the context of "+pk+" (with the values the closure actually captures), not for arbitrary captured values"] = true
				}
			}
		}
	}
	known := loadKnownFindings(filepath.Join(verif, "known_findings"))
	violations := 0
	discharged := 0
	var knownLines, violLines []string
	var samples []interface{}
	replayDir := filepath.Join(outDir, "replays", prop)
	for _, name := range order {
		g := groups[name]
		if len(g.failed) > 0 && ctxDischarged[name] {
			discharged++
			continue
		}
		if len(g.failed) == 0 {
			discharged++
			if len(samples) < 6 && g.instances[0].Backend != "syntactic" && g.instances[0].Backend != "structural" {
				o := g.instances[0]
				samples = append(samples, map[string]interface{}{"obligation": o.Name, "kind": o.Kind, "pos": o.Pos, "note": o.Note, "verdict": o.Verdict, "backend": o.Backend, "smt_bytes": o.SMTSize, "seconds": o.Seconds, "path_instances": len(g.instances)})
			}
			if verbose {
				fmt.Printf("ok    %-60s %s (%d inst, %s)\n", name, g.instances[0].Pos, len(g.instances), g.instances[0].Backend)
			}
			continue
		}
		f := g.failed[0]
		for _, cand := range g.failed {
			if cand.OpqDep == "" {
				f = cand // prefer an instance whose refutation does not hinge on an unmodelled call
				break
			}
		}
		if f.Kind == "arith" {
			// signed overflow is not a panic: an undischarged no-overflow obligation means the
			// mathematical-integer model is not justified for this function, i.e. not decided
			if why := e.notAViolation(f, name, baseShapes, evalErrFns); strings.HasPrefix(why, "assume:") {
				notes[strings.TrimPrefix(why, "assume:")] = true
				discharged++
				continue
			}
			undecided = append(undecided, "no-overflow obligation "+name+" could not be discharged (integer model not justified here)")
			continue
		}
		if f.Kind == "auto-invariant" {
			// a derived candidate invariant no longer holds: what was proved under it is not decided
			undecided = append(undecided, "derived loop invariant "+name+" could not be established")
			continue
		}
		// known finding?
		isKnown := false
		for _, kf := range known {
			if kf.Kind == "finding" && kf.Property == prop && kf.Obligation != "" {
				if ok, _ := regexp.MatchString("^"+kf.Obligation+"$", name); ok {
					isKnown = true
					knownLines = append(knownLines, fmt.Sprintf("KNOWN-FINDING: property=%s %s", prop, kf.Text))
				}
			}
		}
		if isKnown {
			continue
		}
		os.MkdirAll(replayDir, 0o755)
		rp := filepath.Join(replayDir, nonFile.ReplaceAllString(name, "_")+".json")
		smtPath := strings.TrimSuffix(rp, ".json") + ".smt2"
		os.WriteFile(smtPath, []byte(f.smt(true)), 0o644)
		rec := map[string]interface{}{"property": prop, "obligation": name, "function": f.Fn, "position": f.Pos, "what": f.Note, "verdict": f.Verdict,
			"backend": f.Backend, "solver_output": truncate(f.Model, 20000), "witness": f.Values, "smt_query": smtPath, "failed_path_instances": len(g.failed), "path_instances": len(g.instances), "opaque_dependency": f.OpqDep}
		suffix := ""
		replayed := tryReplay(e, verif, repo, prop, f, rec)
		if !replayed {
			suffix = " no-failing-input-found"
			// A failed proof is a violation only when the obligation is one the unchanged tree discharges and
			// the code it talks about is still the code the contract was written against. Otherwise the honest
			// answer is "undecided" (the proof needs maintenance), never an alarm.
			why := e.notAViolation(f, name, baseShapes, evalErrFns)
			if why == "" && f.Kind == "ensures" && f.Verdict != "structural-fail" {
				// (g) the function now calls something the engine has neither body nor contract for: such a function
				// is checked with that part abstracted, and only refutations that replay on the real code are
				// trusted -- where a replay driver exists and searched without finding a failing input
				if rs, _ := rec["replay"].(string); strings.HasPrefix(rs, "the model did not reproduce") {
					if nc := e.newUncontractedCall(f.Fn); nc != "" {
						why = f.Fn + " now calls " + nc + " (no contract, not called in the baseline); its replay driver ran the model and its bounded search without finding a failing input"
					}
				}
			}
			if why != "" {
				if strings.HasPrefix(why, "assume:") {
					notes[strings.TrimPrefix(why, "assume:")] = true
					discharged++
					continue
				}
				undecided = append(undecided, "obligation "+name+" not discharged, not reported as a violation: "+why)
				rec["classification"] = "undecided: " + why
				data, _ := json.MarshalIndent(rec, "", " ")
				os.WriteFile(rp, data, 0o644)
				continue
			}
		}
		violations++
		data, _ := json.MarshalIndent(rec, "", " ")
		os.WriteFile(rp, data, 0o644)
		violLines = append(violLines, fmt.Sprintf("VIOLATION property=%s replay=%s obligation=%s%s", prop, rp, name, suffix))
		fmt.Printf("FAILED %s [%s] %s: %s (verdict %s)\n", name, f.Pos, f.Kind, f.Note, f.Verdict)
	}
	sort.Strings(knownLines)
	knownLines = uniq(knownLines)
	for _, l := range knownLines {
		fmt.Println(l)
	}
	wall := time.Since(t0).Seconds()
	total := len(order)
	var assumptions []string
	for _, x := range sortedBools(assumed) {
		assumptions = append(assumptions, "assumed contract (not proved): "+x)
	}
	for _, x := range sortedBools(opaque) {
		assumptions = append(assumptions, "opaque callee, assumed not to write tracked state: "+x)
	}
	for _, x := range sortedBools(notes) {
		assumptions = append(assumptions, x)
	}
	for _, g := range e.contracts.guards {
		switch g.Class {
		case "mutex", "under":
			// checked at every access
		case "immutable":
			assumptions = append(assumptions, fmt.Sprintf("fields %s.{%s} are immutable after construction: writes are checked (only to freshly allocated objects); that constructors finish before the object is shared is taken on declaration (%s)", g.Struct, strings.Join(g.Fields, ","), g.Note))
		default:
			assumptions = append(assumptions, fmt.Sprintf("protection class taken on declaration: %s.{%s} %s %s", g.Struct, strings.Join(g.Fields, ","), g.Class, g.Note))
		}
	}
	assumptions = append(assumptions, "go/packages + go/ssa (x/tools v0.29.0) and the govc SSA-to-SMT translation are trusted",
		"machine integers: int/int64 modelled as mathematical integers with an overflow obligation on every signed + - * ; uint8/16/32 as bit-vectors",
		"solvers trusted: z3 5.1.0, z3 4.8.12, cvc5 1.0 (first unsat wins; thorough tier requires two agreeing solvers where both answer)")
	level := "proof"
	explanation := ""
	cov := map[string]interface{}{
		"obligations": total, "discharged": discharged,
		"checker_cmd": fmt.Sprintf("bin/govc check %s %s  (VCs generated from %s; solvers z3-new, z3, cvc5)", prop, tier, repo),
		"trusted_base": []string{"go/ssa x/tools v0.29.0", "govc VC generator (/verif/engine)", "z3 5.1.0", "z3 4.8.12", "cvc5 1.0", "assumed contracts in /verif/contracts/assumed"},
		"functions_under_contract": fnKeys, "obligations_per_function": perFn, "path_instances": len(all), "return_paths": paths,
		"by_backend": st.ByBackend, "solver_seconds": st.Seconds, "solver_queries": st.Queries,
		"load_seconds": loadS, "vcgen_seconds": genS, "inlined_callees": sortedBools(inlined),
		"known_findings_reported": knownLines, "samples": samples,
	}
	if len(depVerified) > 0 {
		cov["dependency_functions_verified_from_their_own_ssa"] = depVerified
	}
	if validated > 0 {
		cov["assumed_contracts_validated_by_execution"] = fmt.Sprintf("%d comparisons of ip_is_global_unicast / ipnet_contains with net.IP.IsGlobalUnicast / (*net.IPNet).Contains on boundary and seeded random addresses: all agree", validated)
	}
	if len(samples) == 0 {
		cov["samples"] = []interface{}{map[string]interface{}{"note": "all obligations were discharged syntactically/structurally", "count": total}}
	}
	if discharged < total {
		// never count an unproved obligation: drop to "other" with an explanation
		level = "other"
		explanation = fmt.Sprintf("%d of %d obligations discharged; %d undischarged (%d listed as known findings, %d reported as violations)", discharged, total, total-discharged, total-discharged-violations, violations)
		cov["explanation"] = explanation
	}
	if len(undecided) > 0 {
		level = "other"
		cov["explanation"] = "UNDECIDED: " + strings.Join(undecided, "; ")
	}
	ev := evidence{PropertyID: prop, Tier: tier, Seed: seed, Level: level, Coverage: cov, Assumptions: assumptions, WallS: wall, Violations: violations}
	data, _ := json.MarshalIndent(ev, "", " ")
	os.WriteFile(evPath, data, 0o644)
	fmt.Printf("property=%s tier=%s functions=%d obligations=%d discharged=%d known=%d violations=%d wall=%.1fs (load %.1fs, vcgen %.1fs)\n",
		prop, tier, len(fcs), total, discharged, total-discharged-violations, violations, wall, loadS, genS)
	if len(undecided) > 0 {
		for _, u := range undecided {
			fmt.Printf("UNDECIDED property=%s reason=%q\n", prop, u)
		}
		if violations == 0 {
			return 2
		}
	}
	for _, l := range violLines {
		fmt.Println(l)
	}
	if violations > 0 {
		return 1
	}
	return 0
}

func uniq(xs []string) []string {
	var out []string
	for i, x := range xs {
		if i == 0 || x != xs[i-1] {
			out = append(out, x)
		}
	}
	return out
}

func writeUndecided(path, prop, tier string, seed int, reason string, wall float64) {
	ev := evidence{PropertyID: prop, Tier: tier, Seed: seed, Level: "other", Coverage: map[string]interface{}{"explanation": "UNDECIDED: " + reason}, Assumptions: []string{}, WallS: wall}
	data, _ := json.MarshalIndent(ev, "", " ")
	os.WriteFile(path, data, 0o644)
}

func listUnpinned(e *Engine) {
	for _, k := range sortedKeys(e.contracts.funcs) {
		fc := e.contracts.funcs[k]
		fn := e.fnByKey[k]
		if fn == nil || !e.isRepoFn(fn) || len(fn.Blocks) == 0 || fc.Assumed {
			continue
		}
		var text []string
		for _, tr := range fc.Traces {
			text = append(text, tr.Src)
		}
		for _, cl := range fc.Ensures {
			text = append(text, cl.Src)
		}
		all := strings.Join(text, "\n")
		seen := map[string]bool{}
		for _, b := range fn.Blocks {
			for _, in := range b.Instrs {
				var cc *ssa.CallCommon
				switch x := in.(type) {
				case *ssa.Call:
					cc = &x.Call
				case *ssa.Defer:
					cc = &x.Call
				case *ssa.Go:
					cc = &x.Call
				}
				if cc == nil {
					continue
				}
				n := calleeName(cc)
				if n == "" || seen[n] {
					continue
				}
				seen[n] = true
				if strings.HasPrefix(n, "slog.") || strings.HasPrefix(n, "fmt.") || strings.HasPrefix(n, "sync.") || strings.HasPrefix(n, "errors.") || strings.Contains(n, "debug") || strings.HasPrefix(n, "log.") {
					continue
				}
				mentioned := strings.Contains(all, n)
				for _, tr := range fc.Traces {
					for _, pat := range []string{tr.A, tr.B} {
						if pat != "" && pat != "*" && matchEvent(pat, n) {
							mentioned = true
						}
					}
				}
				if !mentioned {
					args := len(cc.Args)
					fmt.Printf("%-60s %s (%d operands)\n", k, n, args)
				}
			}
		}
	}
}

func listCallees(e *Engine) {
	seen := map[string]int{}
	for k, fn := range e.fnByKey {
		if !e.isRepoFn(fn) || strings.Contains(k, "_test") {
			continue
		}
		for _, b := range fn.Blocks {
			for _, in := range b.Instrs {
				var cc *ssa.CallCommon
				switch x := in.(type) {
				case *ssa.Call:
					cc = &x.Call
				case *ssa.Defer:
					cc = &x.Call
				case *ssa.Go:
					cc = &x.Call
				}
				if cc == nil {
					continue
				}
				n := calleeName(cc)
				if n == "" {
					n = "<dynamic>"
				}
				if callee := cc.StaticCallee(); callee != nil && e.isRepoFn(callee) {
					continue
				}
				seen[n]++
			}
		}
	}
	for _, k := range sortedKeys(seen) {
		fmt.Printf("%4d %s\n", seen[k], k)
	}
}

// listObligations prints the names of the contract-level obligations (ensures, traces, invariants,
// lock and channel invariants, structural rules) of a property on the current tree.
func listObligations(e *Engine, prop string) []string {
	seen := map[string]bool{}
	for _, fc := range e.functionsForProperty(prop) {
		r := e.verifyFunction(fc)
		for _, o := range r.Obls {
			if !hasProp(o.Props, prop) {
				continue
			}
			switch o.Kind {
			case "ensures", "trace", "invariant", "atomic", "explored", "structure":
				// only names that do not depend on instruction ordinals
				if !strings.Contains(o.Name, "@") && !strings.Contains(o.Name, "#") {
					seen[o.Name] = true
				}
			}
		}
	}
	return sortedBools(seen)
}

// notAViolation decides whether an undischarged obligation (for which no failing input could be
// replayed) may be reported as a violation. It returns "" if so, else the reason it is only undecided;
// a reason starting with "assume:" is recorded as an assumption instead.
var unlabelledEnsures = regexp.MustCompile(`/ensures\[\d+\]$`)

// callsBrokenContract: does fn call a repo function whose helper postconditions (unlabelled ensures) fail for
// that function's own body on this tree? Returns the callee key.
func (e *Engine) callsBrokenContract(fn *ssa.Function) string {
	if fn == nil {
		return ""
	}
	if e.brokenMemo == nil {
		e.brokenMemo = map[string]bool{}
	}
	seen := map[string]bool{}
	for _, b := range fn.Blocks {
		for _, in := range b.Instrs {
			var cc *ssa.CallCommon
			switch x := in.(type) {
			case *ssa.Call:
				cc = &x.Call
			case *ssa.Defer:
				cc = &x.Call
			case *ssa.Go:
				cc = &x.Call
			}
			if cc == nil {
				continue
			}
			k := calleeName(cc)
			if impl, ok := e.contracts.dispatch[k]; ok {
				k = impl
			}
			if k == "" || seen[k] {
				continue
			}
			seen[k] = true
			fc := e.contracts.funcs[k]
			cf := e.fnByKey[k]
			if fc == nil || fc.Assumed || cf == nil || !e.isRepoFn(cf) || len(cf.Blocks) == 0 || cf == fn {
				continue
			}
			broken, done := e.brokenMemo[k]
			if !done {
				var obls []*Obligation
				for _, o := range e.verifyFunction(fc).Obls {
					if unlabelledEnsures.MatchString(o.Name) {
						obls = append(obls, o)
					}
				}
				if len(obls) > 0 {
					scratch, _ := os.MkdirTemp("/var/tmp", "govc.")
					solveAll(obls, 10, runtime.NumCPU(), scratch, false)
					os.RemoveAll(scratch)
					for _, o := range obls {
						if !(o.Verdict == "unsat" || o.Verdict == "syntactic") {
							broken = true
						}
					}
				}
				e.brokenMemo[k] = broken
			}
			if broken {
				return k
			}
		}
	}
	return ""
}

var loopRuleNote = regexp.MustCompile("(^|[`: ])loop \\d+ ")
var loopCountRule = regexp.MustCompile("`loop \\d+ (?:exactly|atleast) \\d+ (\\S+?)[` ]")

// callsOutsideLoops: fn (or a closure of fn that the baseline did not have) calls a callee matching pat in
// a block that belongs to no loop.
func (e *Engine) callsOutsideLoops(fn *ssa.Function, pat string, base map[string]Shape) string {
	scan := func(g *ssa.Function, anywhere bool) bool {
		li := e.loopInfo(g)
		for _, b := range g.Blocks {
			inLoop := false
			for _, body := range li.body {
				if body[b] {
					inLoop = true
				}
			}
			if inLoop && !anywhere {
				continue
			}
			for _, in := range b.Instrs {
				if c, ok := in.(*ssa.Call); ok {
					if n := calleeName(&c.Call); n != "" && matchEvent(pat, n) {
						return true
					}
				}
			}
		}
		return false
	}
	if scan(fn, false) {
		return qualFnName(fn)
	}
	for _, an := range fn.AnonFuncs {
		if _, known := base[qualFnName(an)]; !known && scan(an, true) {
			return qualFnName(an)
		}
	}
	return ""
}

// obligationMentionsHeapField: does the query read the heap of a field (symbols h!F!<pkg>.<Type>.<field>!n or
// H0!F!...; the address function fa!... alone does not count)?
func obligationMentionsHeapField(f *Obligation, typeDotField string) bool {
	has := func(t string) bool {
		for i := 0; ; {
			j := strings.Index(t[i:], typeDotField)
			if j < 0 {
				return false
			}
			j += i
			end := j + len(typeDotField)
			if end >= len(t) || t[end] == '!' || t[end] == '|' {
				k := strings.LastIndexByte(t[:j], '|')
				if k >= 0 && (strings.HasPrefix(t[k+1:], "h!F!") || strings.HasPrefix(t[k+1:], "H0!F!")) {
					return true
				}
			}
			i = end
		}
	}
	if has(f.Goal.S) {
		return true
	}
	for _, a := range f.Assume {
		if has(a.S) {
			return true
		}
	}
	return false
}

// obligationMentions: does the query (path condition or goal) mention a symbol containing frag?
func obligationMentions(f *Obligation, frag string) bool {
	if strings.Contains(f.Goal.S, frag) {
		return true
	}
	for _, a := range f.Assume {
		if strings.Contains(a.S, frag) {
			return true
		}
	}
	return false
}

// newLoopNested: is a loop that the baseline did not have (by the source form of its header) nested inside
// another loop of fn? (Then an iteration of the outer loop runs through code without an invariant.)
func (e *Engine) newLoopNested(fn *ssa.Function, b Shape) bool {
	li := e.loopInfo(fn)
	cur := e.shapeOf(fn)
	old := map[string]int{}
	for _, sg := range b.LoopSigs {
		old[sg]++
	}
	for h, ord := range li.ordinal {
		if ord < 1 || ord > len(cur.LoopSigs) {
			return true
		}
		sg := cur.LoopSigs[ord-1]
		if old[sg] > 0 {
			old[sg]--
			continue
		}
		for h2, body := range li.body {
			if h2 != h && body[h] {
				return true
			}
		}
	}
	return false
}

// loopForm classifies the source form of a loop header: range, endless, condition-only, three-clause.
func loopForm(sig string) string {
	switch {
	case strings.HasPrefix(sig, "range "):
		return "range"
	case strings.HasPrefix(sig, "for "):
		parts := strings.Split(strings.TrimPrefix(sig, "for "), ";")
		if len(parts) == 3 {
			f := ""
			for _, p := range parts {
				if strings.TrimSpace(p) == "" {
					f += "-"
				} else {
					f += "x"
				}
			}
			return "for:" + f
		}
		return "for:cond"
	}
	return sig
}

// callsNewFunction: a repo function called by fn that is not part of the baseline
func (e *Engine) callsNewFunction(fn *ssa.Function, base map[string]Shape) string {
	if fn == nil {
		return ""
	}
	for _, b := range fn.Blocks {
		for _, in := range b.Instrs {
			var cc *ssa.CallCommon
			switch x := in.(type) {
			case *ssa.Call:
				cc = &x.Call
			case *ssa.Defer:
				cc = &x.Call
			case *ssa.Go:
				cc = &x.Call
			}
			if cc == nil {
				continue
			}
			if callee := cc.StaticCallee(); callee != nil && e.isRepoFn(callee) && len(callee.Blocks) > 0 {
				if _, known := base[qualFnName(callee)]; !known && callee.Parent() == nil {
					return qualFnName(callee)
				}
			}
		}
	}
	return ""
}

// readsNewField: does fn access a struct field (of a repo struct known to the baseline) that the baseline
// struct did not have and that is not a renamed old field?
func (e *Engine) readsNewField(fn *ssa.Function) string {
	if fn == nil || len(e.baseNames.Structs) == 0 {
		return ""
	}
	check := func(st types.Type, idx int) string {
		if p, ok := st.Underlying().(*types.Pointer); ok {
			st = p.Elem()
		}
		named, ok := st.(*types.Named)
		if !ok || named.Obj().Pkg() == nil {
			return ""
		}
		tk := named.Obj().Pkg().Name() + "." + named.Obj().Name()
		bf, known := e.baseNames.Structs[tk]
		su, ok := named.Underlying().(*types.Struct)
		if !known || !ok || idx >= su.NumFields() {
			return ""
		}
		name := su.Field(idx).Name()
		for _, f := range bf {
			if len(f) > 0 && f[0] == name {
				return ""
			}
		}
		for _, n := range e.fieldAlias {
			if n == name {
				return ""
			}
		}
		return tk + "." + name
	}
	for _, b := range fn.Blocks {
		for _, in := range b.Instrs {
			switch x := in.(type) {
			case *ssa.FieldAddr:
				if r := check(x.X.Type(), x.Field); r != "" {
					return r
				}
			case *ssa.Field:
				if r := check(x.X.Type(), x.Field); r != "" {
					return r
				}
			}
		}
	}
	return ""
}

func (e *Engine) notAViolation(f *Obligation, name string, base map[string]Shape, evalErrFns map[string]bool) string {
	owner := name
	if i := strings.Index(owner, "/"); i >= 0 {
		owner = owner[:i]
	}
	if f.Kind == "cover" {
		return "vacuity guard (the contract's preconditions are no longer satisfiable for this code)"
	}
	if f.Kind == "termination" {
		return "a loop was added to " + owner + ", whose termination argument was that it has none; no variant is given for the loop and no schedule on which the call fails to return was found"
	}
	if f.Verdict == "structural-fail" && f.Kind != "cover" {
		// structural obligations (lock copies, lock order, atomicity, information flow) do not rest on
		// the contract's assumptions: unevaluable clauses and renamed variables do not excuse them
	} else if e.aliasUsed[f.Fn] || e.aliasUsed[owner] {
		return "names in the contract of " + f.Fn + " were resolved heuristically (a variable or field it names was renamed); the refutation may be an artefact of that"
	}
	if evalErrFns[f.Fn] && f.Verdict != "structural-fail" {
		return "the contract of " + f.Fn + " (or of a function it calls) cannot be evaluated against the current code"
	}
	if len(base) == 0 {
		return ""
	}
	proofInternal := map[string]bool{"invariant": true, "auto-invariant": true, "requires": true, "safe": true, "arith": true, "unwind": true}
	for _, k := range []string{owner, f.Fn} {
		fn := e.fnByKey[k]
		if fn == nil {
			continue
		}
		b, known := base[k]
		if !known {
			if f.Kind == "arith" {
				return "assume:machine arithmetic treated as mathematical in " + k + " (function not present in the baseline; no-overflow obligation " + name + " not discharged)"
			}
			if proofInternal[f.Kind] || k == owner {
				return "function " + k + " is not part of the baseline the contracts were written against (it needs a contract of its own)"
			}
			continue
		}
		if fc := e.contracts.funcs[k]; fc != nil {
			cur := e.shapeOf(fn)
			if cur.SrcLoops >= b.SrcLoops && cur.Loops < b.Loops && cur.SrcLoops > cur.Loops {
				// the source still has its loop statements, but one of them no longer iterates: that is a
				// change of behaviour, not a restructuring; the remaining obligations are judged as usual
				cur.Loops = b.Loops
			}
			for n := range fc.LoopInv {
				if n > cur.Loops && n < 1000 {
					return fmt.Sprintf("the contract of %s has an invariant for loop %d, but the function now has %d loops: the proof was written for different code", k, n, cur.Loops)
				}
			}
			for n := range fc.Unroll {
				if n > cur.Loops && n < 1000 {
					return fmt.Sprintf("the contract of %s unrolls loop %d, but the function now has %d loops: the proof was written for different code", k, n, cur.Loops)
				}
			}
		}
		if fc := e.contracts.funcs[k]; fc != nil && fc.LoopsRemapped {
			// the contract's loops were found again by the source form of their headers
		} else if cur := e.shapeOf(fn); cur.Loops != b.Loops && (strings.Contains(name, "/loop") || strings.Contains(f.Note, "`loop ")) {
			return fmt.Sprintf("%s now has %d loops where the baseline has %d: rules and invariants attached to loops by ordinal no longer denote the loops they were written for", k, cur.Loops, b.Loops)
		}
		if cur := e.shapeOf(fn); cur.Results != b.Results {
			return fmt.Sprintf("the result list of %s changed (%d results, baseline %d): its contract speaks about other values", k, cur.Results, b.Results)
		}
		if f.Kind == "arith" && !sameShape(b, e.shapeOf(fn)) {
			return "assume:machine arithmetic treated as mathematical in " + k + " (its structure differs from the baseline; no-overflow obligation " + name + " not discharged)"
		}
		if proofInternal[f.Kind] && !sameShape(b, e.shapeOf(fn)) {
			return "the structure of " + k + " (loops, closures, captured variables, signature) differs from the baseline its proof was written against"
		}
	}
	if f.Verdict != "structural-fail" {
		for _, k := range []string{owner, f.Fn} {
			fn := e.fnByKey[k]
			b, known := base[k]
			if fn == nil || !known {
				continue
			}
			cur := e.shapeOf(fn)
			// (a) a loop the contract has no clause for: the function is outside the verified subset
			// ("every loop with an invariant") until the contract is extended
			if cur.Loops > b.Loops && !(f.Kind == "trace" && loopRuleNote.MatchString(f.Note) && !e.newLoopNested(fn, b)) {
				return fmt.Sprintf("%s has a loop the baseline did not have (%d loops, baseline %d): it needs an invariant before anything after it can be proved", k, cur.Loops, b.Loops)
			}
			// (a2) a loop the contract has clauses for no longer exists (two passes merged into one, a loop replaced
			// by a library call): the invariants that carried the proof are gone with it
			if fc := e.contracts.funcs[k]; fc != nil && cur.Loops < b.Loops && cur.SrcLoops < b.SrcLoops && (len(fc.LoopInv) > 0 || len(fc.Unroll) > 0) {
				return fmt.Sprintf("%s has fewer loops than the baseline (%d, baseline %d) and its contract has clauses for the loops that were there: the proof was written for different code", k, cur.Loops, b.Loops)
			}
			// (b0) a loop that changed its form (range / three-clause / condition-only / endless): one iteration no
			// longer covers the same statements, so rules about "one iteration" and about the events of the
			// statements that moved into the header speak about other code
			if len(cur.LoopSigs) == len(b.LoopSigs) {
				for i := range cur.LoopSigs {
					if loopForm(cur.LoopSigs[i]) != loopForm(b.LoopSigs[i]) {
						return fmt.Sprintf("loop %d of %s changed its form (%q, baseline %q): the rules were written for iterations of the other form", i+1, k, cur.LoopSigs[i], b.LoopSigs[i])
					}
				}
			}
			// (b) a loop whose header was rewritten: invariants inferred / written for the old form may not carry over
			if proofInternal[f.Kind] && len(cur.LoopSigs) == len(b.LoopSigs) {
				for i := range cur.LoopSigs {
					if cur.LoopSigs[i] != b.LoopSigs[i] {
						return fmt.Sprintf("the header of loop %d of %s was rewritten (%q, baseline %q): the proof of its invariants was written for the other form", i+1, k, cur.LoopSigs[i], b.LoopSigs[i])
					}
				}
			}
		}
		// (c) a rule about calls of a function under contract that no longer exists, in a function that now calls
		// a function the baseline does not know: the callee was replaced, the rule's event can no longer occur
		if f.Kind == "trace" {
			for k, ofc := range e.contracts.funcs {
				if ofc.Assumed || e.fnByKey[k] != nil || !strings.Contains(f.Note, k) {
					continue
				}
				if _, was := base[k]; !was {
					continue
				}
				if nf := e.callsNewFunction(e.fnByKey[owner], base); nf != "" {
					return "the rule speaks about calls of " + k + ", which no longer exists; " + owner + " now calls " + nf + ", which the baseline does not know"
				}
			}
		}
		// (f) a per-iteration count rule that finds no occurrence, while the function now calls that callee
		// outside every loop (or in a closure it did not have): the call was hoisted, not dropped
		if f.Kind == "trace" {
			if m := loopCountRule.FindStringSubmatch(f.Note); m != nil && strings.Contains(f.Note, " 0 occurrence") {
				if fn := e.fnByKey[owner]; fn != nil {
					if where := e.callsOutsideLoops(fn, m[1], base); where != "" {
						return "the rule counts " + m[1] + " per loop iteration and finds none, but " + where + " now calls it outside the loop: the call was moved, which the per-iteration rule cannot follow"
					}
				}
			}
		}
		// (d) helper postconditions (unlabelled `ensures`, derived from the code) are part of the modular proof:
		// when one fails, the helper's contract no longer describes the helper; neither that failure nor a
		// failure in a caller that was checked against that contract is a refutation of the property
		if unlabelledEnsures.MatchString(name) {
			return "a helper postcondition of " + owner + " (derived from the code, not from a property) no longer holds: the contract needs maintenance"
		}
		for _, k := range []string{owner, f.Fn} {
			if callee := e.callsBrokenContract(e.fnByKey[k]); callee != "" {
				return k + " was checked against the contract of " + callee + ", whose helper postconditions no longer hold for its body"
			}
		}
		// (e) the function reads a struct field the baseline did not have: it depends on state for which the
		// contract has no invariant (sharing / confinement rules are exempt: no invariant could excuse them)
		if !strings.Contains(f.Note, "private(") && !strings.Contains(f.Note, "evis(") && f.Kind != "guard" && f.Kind != "taint" && f.Kind != "lock" && f.Kind != "locklevel" && f.Kind != "copylock" {
			for _, k := range []string{owner, f.Fn} {
				if fld := e.readsNewField(e.fnByKey[k]); fld != "" && obligationMentionsHeapField(f, fld[strings.Index(fld, "."):]) {
					return k + " reads " + fld + ", a field the baseline did not have: the contract has no invariant for it"
				}
			}
		}
	}
	for _, k := range []string{owner, f.Fn} {
		if g := e.fnRefsLostConst(e.fnByKey[k]); g != "" {
			return "the initial value of " + g + " was known to the baseline proof and cannot be extracted from this tree (its initialiser was rewritten); " + k + " depends on it"
		}
	}
	if f.Kind == "safe" {
		// a run-time check the baseline did not have (new code): needs an annotation, not an alarm
		class := ""
		for _, cl := range []string{"panic", "nil", "index", "slice", "assert", "mapwrite", "div", "conv", "send", "nilcall"} {
			if strings.Contains(name, "safe:"+cl) {
				class = cl
			}
		}
		if class == "nilcall" {
			class = "call"
		}
		if fn := e.fnByKey[owner]; fn != nil && class != "" {
			if bc, ok := e.baseNames.SafeCounts[owner]; ok && safeCounts(fn)[class] > bc[class] {
				return fmt.Sprintf("%s has more run-time checks of class %q than in the baseline (%d > %d): new code needs its own annotation", owner, class, safeCounts(fn)[class], bc[class])
			}
		}
	}
	if f.OpqDep != "" {
		return "the refutation depends on the unconstrained result of " + f.OpqDep + ", a call that has no contract"
	}
	return ""
}

// closureUsedOnlyInPlace: the closure value is only called or spawned where it is created (it is not
// stored, passed on or returned), so checking it at those sites covers every execution of it.
func closureUsedOnlyInPlace(fn *ssa.Function) bool {
	p := fn.Parent()
	if p == nil {
		return false
	}
	found := false
	for _, b := range p.Blocks {
		for _, in := range b.Instrs {
			mc, ok := in.(*ssa.MakeClosure)
			if !ok || mc.Fn != fn {
				continue
			}
			found = true
			if mc.Referrers() == nil {
				return false
			}
			for _, r := range *mc.Referrers() {
				switch x := r.(type) {
				case *ssa.Call:
					if x.Call.Value != mc {
						return false
					}
				case *ssa.Go:
					if x.Call.Value != mc {
						return false
					}
				case *ssa.DebugRef:
				default:
					return false
				}
			}
		}
	}
	return found
}
