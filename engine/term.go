package main

// SMT-LIB term construction. Terms are plain strings with a sort tag; the
// generator never interprets them beyond trivial constant folding.

import (
	"fmt"
	"sort"
	"strings"
)

type Sort string

const (
	SInt  Sort = "Int"
	SBool Sort = "Bool"
	SBV8  Sort = "(_ BitVec 8)"
	SBV16 Sort = "(_ BitVec 16)"
	SBV32 Sort = "(_ BitVec 32)"
	SStr  Sort = "Str"
	SFlt  Sort = "Flt"
)

func ArrSort(idx, elem Sort) Sort { return Sort("(Array " + string(idx) + " " + string(elem) + ")") }

func (s Sort) IsBV() bool { return strings.HasPrefix(string(s), "(_ BitVec") }
func (s Sort) BVWidth() int {
	var w int
	fmt.Sscanf(string(s), "(_ BitVec %d)", &w)
	return w
}

type Term struct {
	S    string
	Sort Sort
}

func (t Term) String() string { return t.S }

var (
	True  = Term{"true", SBool}
	False = Term{"false", SBool}
)

func IntLit(n int64) Term {
	if n < 0 {
		return Term{fmt.Sprintf("(- %d)", -n), SInt}
	}
	return Term{fmt.Sprintf("%d", n), SInt}
}

func BigIntLit(s string) Term {
	if strings.HasPrefix(s, "-") {
		return Term{"(- " + s[1:] + ")", SInt}
	}
	return Term{s, SInt}
}

func BVLit(v uint64, w int) Term {
	return Term{fmt.Sprintf("(_ bv%d %d)", v&((1<<uint(w))-1), w), Sort(fmt.Sprintf("(_ BitVec %d)", w))}
}

func BoolLit(b bool) Term {
	if b {
		return True
	}
	return False
}

func app(op string, sort Sort, args ...Term) Term {
	var sb strings.Builder
	sb.WriteString("(")
	sb.WriteString(op)
	for _, a := range args {
		sb.WriteString(" ")
		sb.WriteString(a.S)
	}
	sb.WriteString(")")
	return Term{sb.String(), sort}
}

func Not(a Term) Term {
	switch a.S {
	case "true":
		return False
	case "false":
		return True
	}
	if strings.HasPrefix(a.S, "(not ") {
		return Term{a.S[5 : len(a.S)-1], SBool}
	}
	return app("not", SBool, a)
}

func And(ts ...Term) Term {
	var xs []Term
	for _, t := range ts {
		if t.S == "true" {
			continue
		}
		if t.S == "false" {
			return False
		}
		xs = append(xs, t)
	}
	switch len(xs) {
	case 0:
		return True
	case 1:
		return xs[0]
	}
	return app("and", SBool, xs...)
}

func Or(ts ...Term) Term {
	var xs []Term
	for _, t := range ts {
		if t.S == "false" {
			continue
		}
		if t.S == "true" {
			return True
		}
		xs = append(xs, t)
	}
	switch len(xs) {
	case 0:
		return False
	case 1:
		return xs[0]
	}
	return app("or", SBool, xs...)
}

func Implies(a, b Term) Term {
	if a.S == "true" {
		return b
	}
	if a.S == "false" || b.S == "true" {
		return True
	}
	return app("=>", SBool, a, b)
}

func Eq(a, b Term) Term {
	if a.S == b.S {
		return True
	}
	if a.Sort != b.Sort {
		panic(fmt.Sprintf("Eq: sort mismatch %s:%s vs %s:%s", a.S, a.Sort, b.S, b.Sort))
	}
	if a.Sort == SInt {
		if x, ok1 := isIntLit(a); ok1 {
			if y, ok2 := isIntLit(b); ok2 {
				return BoolLit(x == y)
			}
		}
	}
	return app("=", SBool, a, b)
}

func Neq(a, b Term) Term { return Not(Eq(a, b)) }

func Ite(c, a, b Term) Term {
	if c.S == "true" {
		return a
	}
	if c.S == "false" {
		return b
	}
	if a.S == b.S {
		return a
	}
	return app("ite", a.Sort, c, a, b)
}

func isIntLit(t Term) (int64, bool) {
	var n int64
	if _, err := fmt.Sscanf(t.S, "(- %d)", &n); err == nil && strings.HasSuffix(t.S, ")") {
		return -n, true
	}
	for _, c := range t.S {
		if c < '0' || c > '9' {
			return 0, false
		}
	}
	if len(t.S) == 0 || len(t.S) > 18 {
		return 0, false
	}
	fmt.Sscanf(t.S, "%d", &n)
	return n, true
}

func Add(a, b Term) Term {
	x, ok1 := isIntLit(a)
	y, ok2 := isIntLit(b)
	if ok1 && ok2 {
		return IntLit(x + y)
	}
	if ok2 && y == 0 {
		return a
	}
	if ok1 && x == 0 {
		return b
	}
	return app("+", SInt, a, b)
}
func Sub(a, b Term) Term {
	x, ok1 := isIntLit(a)
	y, ok2 := isIntLit(b)
	if ok1 && ok2 {
		return IntLit(x - y)
	}
	if ok2 && y == 0 {
		return a
	}
	return app("-", SInt, a, b)
}
func Mul(a, b Term) Term {
	x, ok1 := isIntLit(a)
	y, ok2 := isIntLit(b)
	if ok1 && ok2 && x < 1<<30 && y < 1<<30 && x > -(1<<30) && y > -(1<<30) {
		return IntLit(x * y)
	}
	return app("*", SInt, a, b)
}
func Le(a, b Term) Term {
	x, ok1 := isIntLit(a)
	y, ok2 := isIntLit(b)
	if ok1 && ok2 {
		return BoolLit(x <= y)
	}
	return app("<=", SBool, a, b)
}
func Lt(a, b Term) Term {
	x, ok1 := isIntLit(a)
	y, ok2 := isIntLit(b)
	if ok1 && ok2 {
		return BoolLit(x < y)
	}
	return app("<", SBool, a, b)
}
func Ge(a, b Term) Term { return Le(b, a) }
func Gt(a, b Term) Term { return Lt(b, a) }

func Select(arr, idx Term) Term {
	// sort of result: parse "(Array I E)"
	return app("select", arrElemSort(arr.Sort), arr, idx)
}
func Store(arr, idx, v Term) Term { return app("store", arr.Sort, arr, idx, v) }

// arrElemSort returns the element sort of an "(Array I E)" sort.
func arrElemSort(s Sort) Sort {
	str := string(s)
	if !strings.HasPrefix(str, "(Array ") {
		panic("not an array sort: " + str)
	}
	body := str[len("(Array ") : len(str)-1]
	// the index sort is the first s-expression of body
	i := sexprEnd(body, 0)
	return Sort(strings.TrimSpace(body[i:]))
}

func arrIdxSort(s Sort) Sort {
	str := string(s)
	body := str[len("(Array ") : len(str)-1]
	i := sexprEnd(body, 0)
	return Sort(strings.TrimSpace(body[:i]))
}

func sexprEnd(s string, i int) int {
	for i < len(s) && s[i] == ' ' {
		i++
	}
	if i < len(s) && s[i] == '(' {
		d := 0
		for ; i < len(s); i++ {
			if s[i] == '(' {
				d++
			} else if s[i] == ')' {
				d--
				if d == 0 {
					return i + 1
				}
			}
		}
		return i
	}
	for i < len(s) && s[i] != ' ' {
		i++
	}
	return i
}

func BV2Int(a Term) Term { return app("bv2nat", SInt, a) }
func Int2BV(a Term, w int) Term {
	return app(fmt.Sprintf("(_ int2bv %d)", w), Sort(fmt.Sprintf("(_ BitVec %d)", w)), a)
}

// quoteSym makes an SMT-LIB quoted symbol from an arbitrary name.
func quoteSym(name string) string {
	ok := true
	for _, c := range name {
		if !(c >= 'a' && c <= 'z' || c >= 'A' && c <= 'Z' || c >= '0' && c <= '9' || c == '_' || c == '.' || c == '!' || c == '$' || c == '@' || c == '~' || c == '/' || c == '-' || c == '*' || c == '<' || c == '>' || c == '=' || c == '%' || c == '?' || c == '&' || c == '^' || c == '+') {
			ok = false
			break
		}
	}
	if ok && len(name) > 0 && !(name[0] >= '0' && name[0] <= '9') {
		return name
	}
	name = strings.ReplaceAll(name, "|", "!")
	name = strings.ReplaceAll(name, "\\", "!")
	return "|" + name + "|"
}

// Decls collects declarations (constants, functions, sorts, global axioms)
// in first-use order.
type Decls struct {
	order []string
	lines map[string]string
	axioms []string
	axseen map[string]bool
}

func NewDecls() *Decls {
	return &Decls{lines: map[string]string{}, axseen: map[string]bool{}}
}

func (d *Decls) Const(name string, s Sort) Term {
	q := quoteSym(name)
	if _, ok := d.lines[q]; !ok {
		d.lines[q] = fmt.Sprintf("(declare-fun %s () %s)", q, s)
		d.order = append(d.order, q)
	}
	return Term{q, s}
}

func (d *Decls) Fun(name string, args []Sort, res Sort) string {
	q := quoteSym(name)
	if _, ok := d.lines[q]; !ok {
		var as []string
		for _, a := range args {
			as = append(as, string(a))
		}
		d.lines[q] = fmt.Sprintf("(declare-fun %s (%s) %s)", q, strings.Join(as, " "), res)
		d.order = append(d.order, q)
	}
	return q
}

func (d *Decls) Apply(name string, args []Term, res Sort) Term {
	var ss []Sort
	for _, a := range args {
		ss = append(ss, a.Sort)
	}
	q := d.Fun(name, ss, res)
	if len(args) == 0 {
		return Term{q, res}
	}
	return app(q, res, args...)
}

func (d *Decls) Axiom(s string) {
	if !d.axseen[s] {
		d.axseen[s] = true
		d.axioms = append(d.axioms, s)
	}
}

func (d *Decls) Clone() *Decls {
	n := NewDecls()
	n.order = append([]string(nil), d.order...)
	for k, v := range d.lines {
		n.lines[k] = v
	}
	n.axioms = append([]string(nil), d.axioms...)
	for k := range d.axseen {
		n.axseen[k] = true
	}
	return n
}

// Emit prints the prelude: sorts, then declarations in order, then axioms.
func (d *Decls) Emit(sb *strings.Builder) {
	sb.WriteString("(declare-sort Str 0)\n(declare-sort Flt 0)\n")
	for _, q := range d.order {
		sb.WriteString(d.lines[q])
		sb.WriteString("\n")
	}
	for _, a := range d.axioms {
		sb.WriteString("(assert ")
		sb.WriteString(a)
		sb.WriteString(")\n")
	}
}

func sortedKeys[V any](m map[string]V) []string {
	var ks []string
	for k := range m {
		ks = append(ks, k)
	}
	sort.Strings(ks)
	return ks
}
