package main

// Evaluation of contract expressions on a symbolic state.

import (
	"fmt"
	"go/constant"
	"go/types"
	"net"
	"strconv"
	"strings"

	"golang.org/x/tools/go/ssa"
)

type tv struct {
	v Value
	t types.Type // may be nil for pure spec values
}

type Env struct {
	c       *Ctx
	s       *State
	old     *Snapshot
	atlock  *Snapshot
	vars    map[string]tv
	results []tv
	fn      *ssa.Function
	frame   *frame // for locals (may be nil at call sites)
	pkg     *types.Package
	errs    []string
	inOld   int
	addrVars map[string]tv // names bound to cells (captured variables): dereferenced on use
	trace    []Event       // the path's effect trace (for evres / evarg / evcount)
	curEvent *Event        // the event an `each ... satisfies` expression is evaluated for
}

func (e *Env) fail(format string, args ...interface{}) tv {
	msg := fmt.Sprintf(format, args...)
	e.errs = append(e.errs, msg)
	return tv{Sc{T: e.c.freshConst("cerr", SBool)}, nil}
}

func (e *Env) withHeap(snap *Snapshot, f func() tv) tv {
	if snap == nil {
		return e.fail("old()/atlock() used where no such state exists")
	}
	saved := e.s.heap
	e.s.heap = make(map[string]Term, len(snap.heap))
	for k, v := range snap.heap {
		e.s.heap[k] = v
	}
	savedW := e.c.written
	e.c.written = nil
	e.inOld++
	r := f()
	e.inOld--
	e.c.written = savedW
	e.s.heap = saved
	return r
}

func (e *Env) child() *Env {
	n := *e
	n.vars = make(map[string]tv, len(e.vars))
	for k, v := range e.vars {
		n.vars[k] = v
	}
	return &n
}

func (e *Env) evalBool(x Expr) Term {
	r := e.eval(x)
	sc, ok := r.v.(Sc)
	if !ok || sc.T.Sort != SBool {
		e.fail("expression %s is not boolean", x.exprString())
		return e.c.freshConst("cerr", SBool)
	}
	return sc.T
}

func parseGhostType(s string) (types.Type, bool) {
	s = strings.TrimSpace(s)
	switch s {
	case "int":
		return types.Typ[types.Int], true
	case "bool":
		return types.Typ[types.Bool], true
	case "string":
		return types.Typ[types.String], true
	case "uint32":
		return types.Typ[types.Uint32], true
	case "byte", "uint8":
		return types.Typ[types.Uint8], true
	case "ref":
		return types.Typ[types.UnsafePointer], true
	}
	if strings.HasPrefix(s, "map[") {
		d := 0
		for i := 4; i < len(s); i++ {
			if s[i] == '[' {
				d++
			} else if s[i] == ']' {
				if d == 0 {
					k, ok1 := parseGhostType(s[4:i])
					v, ok2 := parseGhostType(s[i+1:])
					if ok1 && ok2 {
						return types.NewMap(k, v), true
					}
					return nil, false
				}
				d--
			}
		}
	}
	return nil, false
}

func (e *Env) lookupIdent(name string) (tv, bool) {
	if v, ok := e.vars[name]; ok {
		return v, true
	}
	if av, ok := e.addrVars[name]; ok {
		if pt, ok := av.t.(*types.Pointer); ok {
			if sc, ok := av.v.(Sc); ok {
				return tv{e.c.loadAt(e.s, sc.T, pt.Elem()), pt.Elem()}, true
			}
		}
	}
	if e.frame != nil {
		if a, ok := e.frame.alias[name]; ok {
			if _, still := e.frame.locals[name]; !still {
				if la := e.c.eng.localAlias[qualFnName(e.frame.fn)]; la != nil && la[name] == a {
					e.c.eng.aliasUsed[e.c.key] = true
				}
				name = a
			}
		}
		if v, ok := e.frame.locals[name]; ok {
			// declared type of the variable
			t := e.c.eng.localType(e.frame.fn, name)
			if t == nil {
				for _, p := range e.frame.fn.Params {
					if p.Name() == name {
						t = p.Type()
					}
				}
				for _, fv := range e.frame.fn.FreeVars {
					if fv.Name() == name {
						if pt, ok := fv.Type().(*types.Pointer); ok {
							t = pt.Elem()
						}
					}
				}
			}
			if e.frame.localIsAddr[name] {
				if t == nil {
					return tv{}, false
				}
				return tv{e.c.loadAt(e.s, v.(Sc).T, t), t}, true
			}
			return tv{v, t}, true
		}
	}
	// package-level objects
	if e.pkg != nil {
		if obj := e.pkg.Scope().Lookup(name); obj != nil {
			switch o := obj.(type) {
			case *types.Const:
				return e.constTV(o), true
			case *types.Var:
				if sp := e.c.eng.prog.Package(e.pkg); sp != nil {
					if g, ok := sp.Members[name].(*ssa.Global); ok {
						return tv{e.c.loadGlobal(e.s, g), o.Type()}, true
					}
				}
			}
		}
	}
	return tv{}, false
}

func (e *Env) constTV(o *types.Const) tv {
	switch o.Val().Kind() {
	case constant.Int:
		return tv{Sc{T: BigIntLit(o.Val().ExactString())}, o.Type()}
	case constant.Bool:
		return tv{Sc{T: BoolLit(constant.BoolVal(o.Val()))}, o.Type()}
	case constant.String:
		return tv{Sc{T: strLit(e.c.d, constant.StringVal(o.Val()))}, o.Type()}
	}
	return e.fail("unsupported constant %s", o.Name())
}

func sortOfGhost(t types.Type) Sort {
	if m, ok := t.(*types.Map); ok {
		return ArrSort(scalarSort(m.Key()), sortOfGhost(m.Elem()))
	}
	return scalarSort(t)
}

func (e *Env) eval(x Expr) tv {
	c, s := e.c, e.s
	switch n := x.(type) {
	case EInt:
		return tv{Sc{T: BigIntLit(n.V)}, types.Typ[types.UntypedInt]}
	case EStr:
		return tv{Sc{T: strLit(c.d, n.V)}, types.Typ[types.String]}
	case EBool:
		return tv{Sc{T: BoolLit(n.V)}, types.Typ[types.Bool]}
	case ENil:
		return tv{Sc{T: IntLit(0)}, types.Typ[types.UntypedNil]}
	case EResult:
		i := n.N
		if i < 0 {
			i = 0
		}
		if i >= len(e.results) {
			return e.fail("result.%d does not exist", i)
		}
		return e.results[i]
	case EIdent:
		if v, ok := e.lookupIdent(n.Name); ok {
			return v
		}
		return e.fail("unknown identifier %q", n.Name)
	case ECond:
		cnd := e.evalBool(n.C)
		a, b := e.eval(n.A), e.eval(n.B)
		a, b = e.unify(a, b)
		return tv{c.iteValue(cnd, a.v, b.v), a.t}
	case EUnary:
		switch n.Op {
		case "!":
			return tv{Sc{T: Not(e.evalBool(n.X))}, types.Typ[types.Bool]}
		case "-":
			v := e.eval(n.X)
			return tv{Sc{T: Sub(IntLit(0), e.asInt(v))}, types.Typ[types.Int]}
		case "*":
			v := e.eval(n.X)
			pt, ok := v.t.(*types.Pointer)
			if !ok {
				if v.t != nil {
					if p2, ok2 := v.t.Underlying().(*types.Pointer); ok2 {
						pt, ok = p2, true
					}
				}
			}
			if !ok {
				return e.fail("dereference of non-pointer %s", n.X.exprString())
			}
			sc := v.v.(Sc)
			return tv{c.loadPtrCE(s, sc, pt.Elem()), pt.Elem()}
		case "&":
			// address of a field: &x.f
			if sel, ok := n.X.(ESel); ok {
				// &local.f where local is an addressable struct variable of the frame
				if id, ok := sel.X.(EIdent); ok && e.frame != nil && e.frame.localIsAddr[id.Name] {
					if _, shadow := e.vars[id.Name]; !shadow {
						if lt := c.eng.localType(e.frame.fn, id.Name); lt != nil {
							if st, ok := isStructType(lt); ok {
								addr := e.frame.locals[id.Name].(Sc).T
								for i := 0; i < st.NumFields(); i++ {
									if st.Field(i).Name() == sel.Name {
										return tv{Sc{T: c.subRef(s, addr, lt, i)}, types.NewPointer(st.Field(i).Type())}
									}
								}
							}
						}
					}
				}
				base := e.eval(sel.X)
				st, ref, ok := e.structOf(base)
				if ok {
					for i := 0; i < st.NumFields(); i++ {
						if st.Field(i).Name() == sel.Name {
							owner := derefType(base.t)
							return tv{Sc{T: c.subRef(s, ref, owner, i)}, types.NewPointer(st.Field(i).Type())}
						}
					}
				}
			}
			// &local : the address of an addressable variable of the frame
			if id, ok := n.X.(EIdent); ok && e.frame != nil && e.frame.localIsAddr[id.Name] {
				if lt := c.eng.localType(e.frame.fn, id.Name); lt != nil {
					return tv{e.frame.locals[id.Name], types.NewPointer(lt)}
				}
			}
			return e.fail("unsupported address-of %s", n.X.exprString())
		}
	case EBinary:
		return e.evalBinary(n)
	case EQuant:
		ce := e.child()
		gt, ok := parseGhostType(n.Type)
		if !ok {
			return e.fail("unsupported quantifier type %q", n.Type)
		}
		sort := scalarSort(gt)
		// a bound variable: use a fresh SMT symbol name unique to this quantifier
		c.fresh++
		vn := quoteSym(fmt.Sprintf("q!%s!%d", n.Var, c.fresh))
		ce.vars[n.Var] = tv{Sc{T: Term{vn, sort}}, gt}
		// assumptions generated while evaluating the body must not mention the bound variable:
		// evaluate on a scratch pc and drop bound-variable facts (they are only type facts).
		savedPC := s.pc
		body := ce.evalBool(n.Body)
		var keep []Term
		for _, a := range s.pc[len(savedPC):] {
			if !strings.Contains(a.S, vn) {
				keep = append(keep, a)
			}
		}
		s.pc = append(savedPC[:len(savedPC):len(savedPC)], keep...)
		e.errs = append(e.errs, ce.errs[len(e.errs):]...)
		q := "forall"
		if !n.Forall {
			q = "exists"
		}
		return tv{Sc{T: Term{fmt.Sprintf("(%s ((%s %s)) %s)", q, vn, sort, body.S), SBool}}, types.Typ[types.Bool]}
	case ESel:
		return e.evalSel(n)
	case EProj:
		base := e.eval(n.X)
		tu, ok := base.v.(Tu)
		if !ok || n.N >= len(tu.E) {
			return e.fail("%s: not a tuple with component %d", n.exprString(), n.N)
		}
		var t types.Type
		if tt, ok := base.t.(*types.Tuple); ok && n.N < tt.Len() {
			t = tt.At(n.N).Type()
		}
		return tv{tu.E[n.N], t}
	case EIndex:
		return e.evalIndex(n)
	case ESlice:
		base := e.eval(n.X)
		sl, ok := base.v.(Sl)
		if !ok {
			return e.fail("slice expression on non-slice")
		}
		lo := IntLit(0)
		if n.Lo != nil {
			lo = e.asInt(e.eval(n.Lo))
		}
		hi := sl.Len
		if n.Hi != nil {
			hi = e.asInt(e.eval(n.Hi))
		}
		return tv{Sl{Arr: sl.Arr, Off: Add(sl.Off, lo), Len: Sub(hi, lo), Cap: Sub(sl.Cap, lo)}, base.t}
	case ECall:
		return e.evalCall(n)
	}
	return e.fail("cannot evaluate %s", x.exprString())
}

func derefType(t types.Type) types.Type {
	if t == nil {
		return nil
	}
	if p, ok := t.Underlying().(*types.Pointer); ok {
		return p.Elem()
	}
	return t
}

// loadPtrCE loads through a pointer in a contract expression (no nil obligation).
func (c *Ctx) loadPtrCE(s *State, p Sc, t types.Type) Value {
	if p.Prov != nil {
		switch p.Prov.Kind {
		case 1:
			return c.loadField(s, p.Prov.Base, p.Prov.Struct, p.Prov.Field)
		case 2:
			return c.loadElem(s, p.Prov.Base, p.Prov.Idx, p.Prov.ElemT)
		}
	}
	return c.loadAt(s, p.T, t)
}

// structOf: if v is a pointer to struct (or a sub-object), return struct type and the object ref.
func (e *Env) structOf(v tv) (*types.Struct, Term, bool) {
	if v.t == nil {
		return nil, Term{}, false
	}
	if p, ok := v.t.Underlying().(*types.Pointer); ok {
		if st, ok := isStructType(p.Elem()); ok {
			if sc, ok := v.v.(Sc); ok {
				return st, sc.T, true
			}
		}
	}
	return nil, Term{}, false
}

func (e *Env) asInt(v tv) Term {
	sc, ok := v.v.(Sc)
	if !ok {
		e.fail("expected an integer value")
		return e.c.freshConst("cerr", SInt)
	}
	if sc.T.Sort.IsBV() {
		return BV2Int(sc.T)
	}
	if sc.T.Sort != SInt {
		e.fail("expected an integer value, got sort %s", sc.T.Sort)
		return e.c.freshConst("cerr", SInt)
	}
	return sc.T
}

// unify makes two scalar operands comparable (Int literal vs bit-vector).
func (e *Env) unify(a, b tv) (tv, tv) {
	as, ok1 := a.v.(Sc)
	bs, ok2 := b.v.(Sc)
	if !ok1 || !ok2 || as.T.Sort == bs.T.Sort {
		return a, b
	}
	if as.T.Sort.IsBV() && bs.T.Sort == SInt {
		if n, ok := isIntLit(bs.T); ok && n >= 0 {
			return a, tv{Sc{T: BVLit(uint64(n), as.T.Sort.BVWidth())}, a.t}
		}
		return tv{Sc{T: BV2Int(as.T)}, types.Typ[types.Int]}, b
	}
	if bs.T.Sort.IsBV() && as.T.Sort == SInt {
		if n, ok := isIntLit(as.T); ok && n >= 0 {
			return tv{Sc{T: BVLit(uint64(n), bs.T.Sort.BVWidth())}, b.t}, b
		}
		return a, tv{Sc{T: BV2Int(bs.T)}, types.Typ[types.Int]}
	}
	return a, b
}

func (e *Env) evalBinary(n EBinary) tv {
	c := e.c
	boolT := types.Typ[types.Bool]
	switch n.Op {
	// short-circuit on guards that are decided while the expression is built (event counts are concrete
	// numbers): `evcount("E") == 1 ==> ... evres("E") ...` does not evaluate evres when there is no E
	case "&&":
		x := e.evalBool(n.X)
		if x.S == "false" {
			return tv{Sc{T: False}, boolT}
		}
		return tv{Sc{T: And(x, e.evalBool(n.Y))}, boolT}
	case "||":
		x := e.evalBool(n.X)
		if x.S == "true" {
			return tv{Sc{T: True}, boolT}
		}
		return tv{Sc{T: Or(x, e.evalBool(n.Y))}, boolT}
	case "==>":
		x := e.evalBool(n.X)
		if x.S == "false" {
			return tv{Sc{T: True}, boolT}
		}
		return tv{Sc{T: Implies(x, e.evalBool(n.Y))}, boolT}
	case "<==>":
		return tv{Sc{T: Eq(e.evalBool(n.X), e.evalBool(n.Y))}, boolT}
	}
	a, b := e.eval(n.X), e.eval(n.Y)
	a, b = e.unify(a, b)
	switch n.Op {
	case "==", "!=":
		// nil on either side adapts to the other operand's kind
		if _, isNil := n.Y.(ENil); isNil {
			if _, isStruct := a.v.(St); isStruct {
				return e.fail("a struct value compared with nil (%s)", n.X.exprString())
			}
			b = tv{e.nilLike(a), a.t}
		}
		if _, isNil := n.X.(ENil); isNil {
			if _, isStruct := b.v.(St); isStruct {
				return e.fail("a struct value compared with nil (%s)", n.Y.exprString())
			}
			a = tv{e.nilLike(b), b.t}
		}
		eq := c.valuesEqual(e.s, a.v, b.v, a.t)
		if n.Op == "!=" {
			eq = Not(eq)
		}
		return tv{Sc{T: eq}, boolT}
	}
	as, ok1 := a.v.(Sc)
	bs, ok2 := b.v.(Sc)
	if !ok1 || !ok2 {
		return e.fail("operator %s on composite values", n.Op)
	}
	A, B := as.T, bs.T
	if A.Sort.IsBV() && B.Sort.IsBV() {
		switch n.Op {
		case "<":
			return tv{Sc{T: app("bvult", SBool, A, B)}, boolT}
		case "<=":
			return tv{Sc{T: app("bvule", SBool, A, B)}, boolT}
		case ">":
			return tv{Sc{T: app("bvugt", SBool, A, B)}, boolT}
		case ">=":
			return tv{Sc{T: app("bvuge", SBool, A, B)}, boolT}
		case "+":
			return tv{Sc{T: app("bvadd", A.Sort, A, B)}, a.t} // wraps like the Go operation
		case "-":
			return tv{Sc{T: app("bvsub", A.Sort, A, B)}, a.t}
		}
		A, B = BV2Int(A), BV2Int(B)
	}
	if A.Sort != SInt || B.Sort != SInt {
		return e.fail("operator %s on sorts %s, %s", n.Op, A.Sort, B.Sort)
	}
	intT := types.Typ[types.Int]
	switch n.Op {
	case "<":
		return tv{Sc{T: Lt(A, B)}, boolT}
	case "<=":
		return tv{Sc{T: Le(A, B)}, boolT}
	case ">":
		return tv{Sc{T: Gt(A, B)}, boolT}
	case ">=":
		return tv{Sc{T: Ge(A, B)}, boolT}
	case "+":
		return tv{Sc{T: Add(A, B)}, intT}
	case "-":
		return tv{Sc{T: Sub(A, B)}, intT}
	case "*":
		return tv{Sc{T: Mul(A, B)}, intT}
	case "/":
		return tv{Sc{T: app("div", SInt, A, B)}, intT}
	case "%":
		return tv{Sc{T: app("mod", SInt, A, B)}, intT}
	}
	return e.fail("unknown operator %s", n.Op)
}

func (e *Env) nilLike(v tv) Value {
	switch v.v.(type) {
	case If:
		return If{IntLit(0), IntLit(0)}
	case Sl:
		return Sl{IntLit(0), IntLit(0), IntLit(0), IntLit(0)}
	}
	return Sc{T: IntLit(0)}
}

func (e *Env) evalSel(n ESel) tv {
	c, s := e.c, e.s
	// package-qualified identifier?
	if id, ok := n.X.(EIdent); ok {
		if _, found := e.lookupIdent(id.Name); !found && e.pkg != nil {
			for _, imp := range e.pkg.Imports() {
				if imp.Name() == id.Name {
					if obj := imp.Scope().Lookup(n.Name); obj != nil {
						switch o := obj.(type) {
						case *types.Const:
							return e.constTV(o)
						case *types.Var:
							if sp := c.eng.prog.Package(imp); sp != nil {
								if g, ok := sp.Members[n.Name].(*ssa.Global); ok {
									return tv{c.loadGlobal(s, g), o.Type()}
								}
							}
						}
					}
				}
			}
		}
	}
	base := e.eval(n.X)
	// built-in pseudo fields
	switch n.Name {
	case "$typ":
		if iv, ok := base.v.(If); ok {
			return tv{Sc{T: iv.Typ}, types.Typ[types.Int]}
		}
	case "$val":
		if iv, ok := base.v.(If); ok {
			return tv{Sc{T: iv.Val}, types.Typ[types.UnsafePointer]}
		}
	case "$arr":
		if sl, ok := base.v.(Sl); ok {
			return tv{Sc{T: sl.Arr}, types.Typ[types.UnsafePointer]}
		}
	case "$off":
		if sl, ok := base.v.(Sl); ok {
			return tv{Sc{T: sl.Off}, types.Typ[types.Int]}
		}
	}
	// struct value
	if sv, ok := base.v.(St); ok {
		if st, ok := isStructType(sv.Typ); ok {
			if an := c.eng.fieldNameFor(sv.Typ, n.Name); an != n.Name {
				c.eng.aliasUsed[c.key] = true
				n.Name = an
			}
			for i := 0; i < st.NumFields(); i++ {
				if st.Field(i).Name() == n.Name {
					return tv{sv.F[i], st.Field(i).Type()}
				}
			}
			// promoted through embedded
			for i := 0; i < st.NumFields(); i++ {
				if st.Field(i).Embedded() {
					if inner, ok := sv.F[i].(St); ok {
						if ist, ok := isStructType(inner.Typ); ok {
							for j := 0; j < ist.NumFields(); j++ {
								if ist.Field(j).Name() == n.Name {
									return tv{inner.F[j], ist.Field(j).Type()}
								}
							}
						}
					}
				}
			}
		}
		return e.fail("no field %s in struct value", n.Name)
	}
	st, ref, ok := e.structOf(base)
	if !ok {
		return e.fail("selector .%s on non-struct %s (type %v)", n.Name, n.X.exprString(), base.t)
	}
	owner := derefType(base.t)
	if an := c.eng.fieldNameFor(owner, n.Name); an != n.Name {
		c.eng.aliasUsed[c.key] = true
		n.Name = an
	}
	for i := 0; i < st.NumFields(); i++ {
		if st.Field(i).Name() == n.Name {
			ft := st.Field(i).Type()
			if _, isS := isStructType(ft); isS {
				// value of embedded struct: load whole
				return tv{c.loadField(s, ref, owner, i), ft}
			}
			return tv{c.loadField(s, ref, owner, i), ft}
		}
	}
	// embedded struct promotion (one level)
	for i := 0; i < st.NumFields(); i++ {
		if st.Field(i).Embedded() {
			if ist, ok := isStructType(st.Field(i).Type()); ok {
				for j := 0; j < ist.NumFields(); j++ {
					if ist.Field(j).Name() == n.Name {
						sub := c.subRef(s, ref, owner, i)
						return tv{c.loadField(s, sub, st.Field(i).Type(), j), ist.Field(j).Type()}
					}
				}
			}
		}
	}
	// ghost field
	key := shortTypeKey(owner) + "." + n.Name
	if gf, ok := c.eng.contracts.ghosts[key]; ok {
		gt, ok := parseGhostType(gf.Type)
		if !ok {
			return e.fail("bad ghost type %s", gf.Type)
		}
		h := c.getHeap(s, "G|"+key, ArrSort(SInt, sortOfGhost(gt)))
		return tv{Sc{T: Select(h, ref)}, gt}
	}
	return e.fail("no field or ghost field %s in %s", n.Name, key)
}

// shortTypeKey gives "pkgshort.T" for a named type.
func shortTypeKey(t types.Type) string {
	if p, ok := t.(*types.Pointer); ok {
		t = p.Elem()
	}
	if n, ok := t.(*types.Named); ok {
		if n.Obj().Pkg() != nil {
			return n.Obj().Pkg().Name() + "." + n.Obj().Name()
		}
		return n.Obj().Name()
	}
	return t.String()
}

func (e *Env) evalIndex(n EIndex) tv {
	c, s := e.c, e.s
	base := e.eval(n.X)
	idx := e.eval(n.I)
	switch bv := base.v.(type) {
	case Sl:
		et := base.t.Underlying().(*types.Slice).Elem()
		return tv{c.loadElem(s, bv.Arr, Add(bv.Off, e.asInt(idx)), et), et}
	case Sc:
		if bv.T.Sort == SStr {
			return tv{Sc{T: c.d.Apply("strbyte", []Term{bv.T, e.asInt(idx)}, SBV8)}, types.Typ[types.Uint8]}
		}
		if strings.HasPrefix(string(bv.T.Sort), "(Array") {
			// ghost map value
			k := idx.v.(Sc).T
			is := arrIdxSort(bv.T.Sort)
			if k.Sort != is {
				if is.IsBV() && k.Sort == SInt {
					if nn, ok := isIntLit(k); ok {
						k = BVLit(uint64(nn), is.BVWidth())
					}
				} else if is == SInt && k.Sort.IsBV() {
					k = BV2Int(k)
				}
			}
			var et types.Type
			if m, ok := base.t.(*types.Map); ok {
				et = m.Elem()
			}
			return tv{Sc{T: Select(bv.T, k)}, et}
		}
		if base.t != nil {
			if mt, ok := base.t.Underlying().(*types.Map); ok {
				v, _ := c.mapGet(s, bv.T, mt, idx.v)
				return tv{v, mt.Elem()}
			}
		}
	case Ar:
		return tv{Sc{T: Select(bv.Elems, e.asInt(idx))}, bv.ElemT}
	}
	return e.fail("cannot index %s", n.X.exprString())
}

func (e *Env) evalCall(n ECall) tv {
	c, s := e.c, e.s
	boolT := types.Typ[types.Bool]
	intT := types.Typ[types.Int]
	switch n.Fn {
	case "old":
		if len(n.Args) != 1 {
			return e.fail("old takes one argument")
		}
		return e.withHeap(e.old, func() tv { return e.eval(n.Args[0]) })
	case "atlock":
		snap := e.atlock
		if snap == nil {
			snap = s.atLock
		}
		if snap == nil {
			snap = e.old // no lock taken on this path: the entry state
		}
		return e.withHeap(snap, func() tv { return e.eval(n.Args[0]) })
	case "len":
		v := e.eval(n.Args[0])
		switch x := v.v.(type) {
		case Sl:
			return tv{Sc{T: x.Len}, intT}
		case Ar:
			return tv{Sc{T: IntLit(x.N)}, intT}
		case Sc:
			if x.T.Sort == SStr {
				return tv{Sc{T: StrLen(c.d, x.T)}, intT}
			}
			if v.t != nil {
				if mt, ok := v.t.Underlying().(*types.Map); ok {
					return tv{Sc{T: c.mapLen(s, x.T, mt)}, intT}
				}
			}
		}
		return e.fail("len of %s", n.Args[0].exprString())
	case "cap":
		v := e.eval(n.Args[0])
		if x, ok := v.v.(Sl); ok {
			return tv{Sc{T: x.Cap}, intT}
		}
		return e.fail("cap of non-slice")
	case "has":
		m := e.eval(n.Args[0])
		k := e.eval(n.Args[1])
		if m.t != nil {
			if mt, ok := m.t.Underlying().(*types.Map); ok {
				if sc, ok := m.v.(Sc); ok && sc.T.Sort == SInt {
					if k.t != nil {
						// a key of a basic type (string, int) cannot index a map keyed by a struct, and vice versa
						kb, kIsBasic := k.t.Underlying().(*types.Basic)
						mb, mIsBasic := mt.Key().Underlying().(*types.Basic)
						_, mIsIface := mt.Key().Underlying().(*types.Interface)
						if !mIsIface && kIsBasic && kb.Kind() != types.UnsafePointer && (!mIsBasic || (kb.Info()&types.IsString != 0) != (mb.Info()&types.IsString != 0)) {
							return e.fail("has(): the map's key type is %s, not %s: cannot index", mt.Key(), k.t)
						}
					}
					return tv{Sc{T: c.mapHas(s, sc.T, mt, k.v)}, boolT}
				}
			}
		}
		return e.fail("has() on non-map")
	case "closed":
		ch := e.eval(n.Args[0])
		h := c.getHeap(s, "ChanClosed", ArrSort(SInt, SBool))
		return tv{Sc{T: Select(h, ch.v.(Sc).T)}, boolT}
	case "oncedone":
		o := e.eval(n.Args[0])
		h := c.getHeap(s, "OnceDone", ArrSort(SInt, SBool))
		return tv{Sc{T: Select(h, o.v.(Sc).T)}, boolT}
	case "held", "heldw":
		// held(x.mu): x.mu is a field selector
		sel, ok := n.Args[0].(ESel)
		if !ok {
			return e.fail("held() expects x.mutexfield")
		}
		base := e.eval(sel.X)
		_, ref, ok := e.structOf(base)
		if !ok {
			return e.fail("held(): not a struct pointer")
		}
		key := shortTypeKey(derefType(base.t)) + "." + sel.Name
		var alts []Term
		for _, l := range s.locks {
			if l.Key == key && (n.Fn == "held" || l.Write) {
				alts = append(alts, Eq(l.Base, ref))
			}
		}
		return tv{Sc{T: Or(alts...)}, boolT}
	case "nolocks":
		return tv{Sc{T: BoolLit(len(s.locks) == 0)}, boolT}
	case "typeis":
		v := e.eval(n.Args[0])
		name := n.Args[1].(EStr).V
		iv, ok := v.v.(If)
		if !ok {
			return e.fail("typeis on non-interface")
		}
		code, ok := c.eng.typeCodeByName(name)
		if !ok {
			return e.fail("typeis: unknown type %q", name)
		}
		return tv{Sc{T: Eq(iv.Typ, IntLit(int64(code)))}, boolT}
	case "ptr":
		// ptr(x, "*pkg.T"): view the raw reference x as a pointer of the given type
		v := e.eval(n.Args[0])
		name := n.Args[1].(EStr).V
		t := c.eng.namedType(strings.TrimPrefix(name, "*"))
		sc, ok := v.v.(Sc)
		if t == nil || !ok {
			return e.fail("ptr(): bad arguments")
		}
		return tv{Sc{T: sc.T}, types.NewPointer(t)}
	case "as":
		// as(x, "*pkg.T"): the pointer stored in interface value x (meaningful when typeis(x, T))
		v := e.eval(n.Args[0])
		name := n.Args[1].(EStr).V
		iv, ok := v.v.(If)
		if !ok {
			return e.fail("as() on non-interface")
		}
		t := c.eng.namedType(strings.TrimPrefix(name, "*"))
		if t == nil {
			return e.fail("as(): unknown type %q", name)
		}
		if strings.HasPrefix(name, "*") {
			return tv{Sc{T: iv.Val}, types.NewPointer(t)}
		}
		return tv{c.unbox(s, iv.Val, t), t}
	case "funcref":
		// funcref("pkg.Func"): the function constant
		nameE, ok := n.Args[0].(EStr)
		if !ok {
			return e.fail("funcref needs a string")
		}
		fn := c.eng.fnByKey[nameE.V]
		if fn == nil {
			return e.fail("funcref: unknown function %s", nameE.V)
		}
		return tv{c.funcValue(s, fn, nil), fn.Signature}
	case "evres", "evarg", "evrecv":
		// evres("event pattern", k): k-th result of the unique matching event on this path
		nameE, ok := n.Args[0].(EStr)
		if !ok {
			return e.fail("%s needs an event pattern string", n.Fn)
		}
		var found []Event
		for _, ev := range e.trace {
			if matchEvent(nameE.V, ev.Name) {
				found = append(found, ev)
			}
		}
		if len(found) != 1 {
			return e.fail("%s(%q): %d matching events on this path (need exactly 1)", n.Fn, nameE.V, len(found))
		}
		ce := e.child()
		c.bindEvent(ce, found[0])
		if n.Fn == "evrecv" {
			if v, ok := ce.vars["$recv"]; ok {
				return v
			}
			return e.fail("event has no receiver")
		}
		k := 0
		if len(n.Args) > 1 {
			if ki, ok := n.Args[1].(EInt); ok {
				k = atoi(ki.V)
			}
		}
		key := fmt.Sprintf("$res%d", k)
		if n.Fn == "evarg" {
			key = fmt.Sprintf("$arg%d", k)
		}
		if v, ok := ce.vars[key]; ok {
			return v
		}
		return e.fail("%s: event has no %s", n.Fn, key)
	case "evnth":
		// evnth("pattern", n, "arg"|"res", k): operand of the n-th (0-based) matching event on this path
		nameE, ok := n.Args[0].(EStr)
		if !ok || len(n.Args) != 4 {
			return e.fail("evnth(pattern, n, \"arg\"|\"res\", k)")
		}
		idx := atoi(n.Args[1].(EInt).V)
		kind := n.Args[2].(EStr).V
		k := atoi(n.Args[3].(EInt).V)
		var found []Event
		for _, ev := range e.trace {
			if matchEvent(nameE.V, ev.Name) {
				found = append(found, ev)
			}
		}
		if idx >= len(found) {
			return e.fail("evnth(%q, %d): only %d matching events on this path", nameE.V, idx, len(found))
		}
		ce := e.child()
		c.bindEvent(ce, found[idx])
		key := fmt.Sprintf("$%s%d", kind, k)
		if v, ok := ce.vars[key]; ok {
			return v
		}
		return e.fail("evnth: event has no %s", key)
	case "private":
		// private(x): the object / backing array x denotes was allocated by this activation (or by a
		// function it called), or the caller vouches for it in a precondition: nobody else holds it
		if len(n.Args) != 1 {
			return e.fail("private(x)")
		}
		x := e.eval(n.Args[0])
		c.d.Fun("privateObj", []Sort{SInt}, SBool)
		switch v := x.v.(type) {
		case Sl:
			return tv{Sc{T: app("privateObj", SBool, v.Arr)}, boolT}
		case Sc:
			if v.T.Sort == SInt {
				return tv{Sc{T: app("privateObj", SBool, v.T)}, boolT}
			}
		case If:
			return tv{Sc{T: app("privateObj", SBool, v.Val)}, boolT}
		}
		return e.fail("private() of a value that is not a reference")
	case "evis":
		// evis("pattern"): the event under consideration matches the pattern
		nameE, ok := n.Args[0].(EStr)
		if !ok || e.curEvent == nil {
			return e.fail("evis(pattern) is only meaningful inside `each ... satisfies`")
		}
		return tv{Sc{T: BoolLit(matchEvent(nameE.V, e.curEvent.Name))}, boolT}
	case "captured":
		// captured(f, "name"): the current value of the variable `name` that the closure value f captured
		if len(n.Args) != 2 {
			return e.fail("captured(f, \"name\") needs a closure and a variable name")
		}
		nameE, ok := n.Args[1].(EStr)
		if !ok {
			return e.fail("captured needs a variable name string")
		}
		fv := e.eval(n.Args[0])
		sc, ok := fv.v.(Sc)
		if !ok {
			return e.fail("captured on a non-function value")
		}
		ci, ok := e.c.eng.closures[sc.T.S]
		if !ok || ci.fn == nil {
			return e.fail("captured: the value is not a closure created in this function")
		}
		want := nameE.V
		if la := e.c.eng.localAlias[qualFnName(ci.fn)]; la != nil {
			if nn, ok := la[want]; ok {
				found := false
				for _, v := range ci.fn.FreeVars {
					found = found || v.Name() == want
				}
				if !found {
					want = nn
					e.c.eng.aliasUsed[e.c.key] = true
				}
			}
		}
		for i, v := range ci.fn.FreeVars {
			if v.Name() == want && i < len(ci.binds) {
				if pt, ok := v.Type().(*types.Pointer); ok {
					if bsc, ok := ci.binds[i].(Sc); ok {
						return tv{e.c.loadAt(e.s, bsc.T, pt.Elem()), pt.Elem()}
					}
				}
				return tv{ci.binds[i], v.Type()}
			}
		}
		return e.fail("captured: the closure has no captured variable " + nameE.V)
	case "uses":
		// uses(x): the event under consideration has x as receiver, as an argument, or captured by a
		// closure it is given / spawns
		if e.curEvent == nil || len(n.Args) != 1 {
			return e.fail("uses(x) is only meaningful inside `each ... satisfies`")
		}
		x := e.eval(n.Args[0])
		var alts []Term
		consider := func(v Value, t types.Type) {
			// only operands whose static type is the static type of x can denote x (no cross-type aliasing),
			// unless the operand is literally the same symbolic value (x converted to another interface)
			same := false
			switch a := x.v.(type) {
			case If:
				if b, ok := v.(If); ok {
					same = a.Typ.S == b.Typ.S && a.Val.S == b.Val.S
				}
			case Sc:
				if b, ok := v.(Sc); ok {
					same = a.T.S == b.T.S && a.T.Sort == SInt
				}
			}
			if !same && (t == nil || x.t == nil || !types.Identical(t, x.t)) {
				return
			}
			switch a := x.v.(type) {
			case If:
				if b, ok := v.(If); ok {
					alts = append(alts, And(Eq(a.Typ, b.Typ), Eq(a.Val, b.Val)))
				}
			case Sc:
				if b, ok := v.(Sc); ok && a.T.Sort == b.T.Sort {
					alts = append(alts, Eq(a.T, b.T))
				}
			}
		}
		for i, v := range e.curEvent.Args {
			if i < len(e.curEvent.ArgT) {
				consider(v, e.curEvent.ArgT[i])
			}
		}
		if e.curEvent.Recv != nil {
			consider(e.curEvent.Recv, e.curEvent.RecvT)
		}
		for i, v := range e.curEvent.Extra {
			consider(v, e.curEvent.ExtraT[i])
		}
		return tv{Sc{T: Or(alts...)}, boolT}
	case "evcount":
		nameE, ok := n.Args[0].(EStr)
		if !ok {
			return e.fail("evcount needs an event pattern string")
		}
		cnt := 0
		for _, ev := range e.trace {
			if matchEvent(nameE.V, ev.Name) {
				cnt++
			}
		}
		return tv{Sc{T: IntLit(int64(cnt))}, intT}
	case "mapkey":
		// mapkey(v): the engine's encoding of a (struct) map key as a single term
		v := e.eval(n.Args[0])
		return tv{Sc{T: c.mapKeyTerm(s, v.v, v.t)}, types.Typ[types.UnsafePointer]}
	case "clock":
		return tv{Sc{T: c.getHeap(s, "Clock", SInt)}, types.Typ[types.Int]}
	case "visited":
		// visited(k): key k has already been produced by the map range running in this frame
		if e.frame == nil || len(e.frame.rangeVisited) == 0 {
			return e.fail("visited(): no map range in progress")
		}
		var vis Term
		for _, t := range e.frame.rangeVisited {
			vis = t
		}
		k := e.eval(n.Args[0])
		return tv{Sc{T: Select(vis, c.mapKeyTerm(s, k.v, k.t))}, boolT}
	case "fnonneg":
		v := e.eval(n.Args[0])
		return tv{Sc{T: c.d.Apply("fnonneg", []Term{v.v.(Sc).T}, SBool)}, boolT}
	case "byteat":
		v := e.eval(n.Args[0])
		i := e.asInt(e.eval(n.Args[1]))
		sl, ok := v.v.(Sl)
		if !ok {
			return e.fail("byteat on non-slice")
		}
		return tv{c.loadElem(s, sl.Arr, Add(sl.Off, i), types.Typ[types.Uint8]), types.Typ[types.Uint8]}
	case "cidr":
		v := e.eval(n.Args[0])
		sl, ok := v.v.(Sl)
		if !ok {
			return e.fail("cidr on non-slice")
		}
		return tv{Sc{T: e.cidrTerm(sl, n.Args[1].(EStr).V)}, boolT}
	case "ip_is_global_unicast":
		v := e.eval(n.Args[0])
		sl, ok := v.v.(Sl)
		if !ok {
			return e.fail("ip_is_global_unicast on non-slice")
		}
		return tv{Sc{T: e.ipGlobalUnicast(sl)}, boolT}
	case "ipnet_shape_ok", "ipnet_contains":
		nv := e.eval(n.Args[0])
		_, ref, ok := e.structOf(nv)
		if !ok {
			return e.fail("%s: first argument must be *net.IPNet", n.Fn)
		}
		owner := derefType(nv.t)
		st := owner.Underlying().(*types.Struct)
		var nip, mask Sl
		for i := 0; i < st.NumFields(); i++ {
			switch st.Field(i).Name() {
			case "IP":
				nip = c.loadField(s, ref, owner, i).(Sl)
			case "Mask":
				mask = c.loadField(s, ref, owner, i).(Sl)
			}
		}
		if n.Fn == "ipnet_shape_ok" {
			return tv{Sc{T: Or(And(Eq(nip.Len, IntLit(4)), Eq(mask.Len, IntLit(4))), And(Eq(nip.Len, IntLit(16)), Eq(mask.Len, IntLit(16)), Not(e.v4mapped(nip))))}, boolT}
		}
		ipv := e.eval(n.Args[1])
		ip, ok := ipv.v.(Sl)
		if !ok {
			return e.fail("ipnet_contains: second argument must be a byte slice")
		}
		return tv{Sc{T: e.ipnetContains(nip, mask, ip)}, boolT}
	case "pure":
		// pure("callee key", args...): the uninterpreted function that models calls of an (assumed) pure callee
		if len(n.Args) < 1 {
			return e.fail("pure() needs a callee name")
		}
		nameE, ok := n.Args[0].(EStr)
		if !ok {
			return e.fail("pure(): first argument must be a string")
		}
		fc, ok := c.eng.contracts.funcs[nameE.V]
		if !ok || !fc.Pure {
			return e.fail("pure(): %s is not declared pure", nameE.V)
		}
		var args []Value
		var ats []types.Type
		for _, a := range n.Args[1:] {
			av := e.eval(a)
			args = append(args, av.v)
			ats = append(ats, av.t)
		}
		rt, ok := c.eng.resultTypeOf(nameE.V)
		if !ok {
			return e.fail("pure(): cannot find the result type of %s", nameE.V)
		}
		return tv{c.pureWithEnsures(s, fc, args, ats, rt), rt}
	case "sameslice":
		a, b := e.eval(n.Args[0]), e.eval(n.Args[1])
		x, ok1 := a.v.(Sl)
		y, ok2 := b.v.(Sl)
		if !ok1 || !ok2 {
			return e.fail("sameslice on non-slices")
		}
		return tv{Sc{T: And(Eq(x.Arr, y.Arr), Eq(x.Off, y.Off), Eq(x.Len, y.Len))}, boolT}
	case "int":
		return tv{Sc{T: e.asInt(e.eval(n.Args[0]))}, intT}
	case "min":
		a, b := e.asInt(e.eval(n.Args[0])), e.asInt(e.eval(n.Args[1]))
		return tv{Sc{T: Ite(Le(a, b), a, b)}, intT}
	case "max":
		a, b := e.asInt(e.eval(n.Args[0])), e.asInt(e.eval(n.Args[1]))
		return tv{Sc{T: Ite(Ge(a, b), a, b)}, intT}
	}
	// user predicates
	if pd, ok := c.eng.contracts.preds[n.Fn]; ok {
		if len(pd.Params) != len(n.Args) {
			return e.fail("predicate %s expects %d arguments", n.Fn, len(pd.Params))
		}
		ce := e.child()
		n0 := len(ce.errs)
		for i, p := range pd.Params {
			ce.vars[p.Name] = e.eval(n.Args[i])
		}
		r := ce.eval(pd.Body)
		e.errs = append(e.errs, ce.errs[n0:]...)
		return r
	}
	// repo functions declared pure: the same uninterpreted function the call sites use
	if e.pkg != nil {
		key := e.pkg.Name() + "." + n.Fn
		if fc, ok := c.eng.contracts.funcs[key]; ok && fc.Pure {
			if fn := c.eng.fnByKey[key]; fn != nil {
				var args []Value
				for _, a := range n.Args {
					args = append(args, e.eval(a).v)
				}
				rt := fn.Signature.Results()
				var t types.Type = rt
				if rt.Len() == 1 {
					t = rt.At(0).Type()
				}
				return tv{c.pureResult(s, fc, nil, args, t), t}
			}
		}
	}
	// uninterpreted spec functions: uf_<name>(args) with result sort from suffix
	if strings.HasPrefix(n.Fn, "uf_") {
		var args []Term
		for _, a := range n.Args {
			v := e.eval(a)
			switch x := v.v.(type) {
			case Sc:
				args = append(args, x.T)
			case Sl:
				args = append(args, x.Arr, x.Off, x.Len)
			case If:
				args = append(args, x.Typ, x.Val)
			default:
				return e.fail("unsupported argument to %s", n.Fn)
			}
		}
		res := SBool
		var rt types.Type = boolT
		if strings.HasSuffix(n.Fn, "_int") {
			res, rt = SInt, intT
		} else if strings.HasSuffix(n.Fn, "_str") {
			res, rt = SStr, types.Typ[types.String]
		}
		return tv{Sc{T: c.d.Apply(n.Fn, args, res)}, rt}
	}
	return e.fail("unknown function %s in contract", n.Fn)
}

// cidrTerm: the byte slice (of symbolic length) denotes an address inside the CIDR block.
// IPv4 blocks match both the 4-byte form and the 16-byte v4-mapped form.
func (e *Env) cidrTerm(sl Sl, cidr string) Term {
	c, s := e.c, e.s
	_, nw, err := net.ParseCIDR(cidr)
	if err != nil {
		e.fail("bad CIDR %q", cidr)
		return False
	}
	ones, bits := nw.Mask.Size()
	byteAt := func(i int) Term {
		return c.loadElem(s, sl.Arr, Add(sl.Off, IntLit(int64(i))), types.Typ[types.Uint8]).(Sc).T
	}
	match := func(off int, ip net.IP) Term {
		var cs []Term
		full := ones / 8
		for i := 0; i < full; i++ {
			cs = append(cs, Eq(byteAt(off+i), BVLit(uint64(ip[i]), 8)))
		}
		if rem := ones % 8; rem != 0 {
			mask := byte(0xff << uint(8-rem))
			cs = append(cs, Eq(app("bvand", SBV8, byteAt(off+full), BVLit(uint64(mask), 8)), BVLit(uint64(ip[full]&mask), 8)))
		}
		return And(cs...)
	}
	if bits == 32 {
		ip4 := nw.IP.To4()
		var mapped []Term
		for i := 0; i < 10; i++ {
			mapped = append(mapped, Eq(byteAt(i), BVLit(0, 8)))
		}
		mapped = append(mapped, Eq(byteAt(10), BVLit(0xff, 8)), Eq(byteAt(11), BVLit(0xff, 8)))
		return Or(And(Eq(sl.Len, IntLit(4)), match(0, ip4)), And(append([]Term{Eq(sl.Len, IntLit(16))}, append(mapped, match(12, ip4))...)...))
	}
	return And(Eq(sl.Len, IntLit(16)), match(0, nw.IP.To16()))
}

func atoi(s string) int {
	n, _ := strconv.Atoi(s)
	return n
}

// ---- transcription of the net package's address predicates (assumed, validated by execution) ----

func (e *Env) byteOf(sl Sl, i int) Term {
	return e.c.loadElem(e.s, sl.Arr, Add(sl.Off, IntLit(int64(i))), types.Typ[types.Uint8]).(Sc).T
}

func (e *Env) v4mapped(ip Sl) Term {
	cs := []Term{Eq(ip.Len, IntLit(16))}
	for i := 0; i < 10; i++ {
		cs = append(cs, Eq(e.byteOf(ip, i), BVLit(0, 8)))
	}
	cs = append(cs, Eq(e.byteOf(ip, 10), BVLit(0xff, 8)), Eq(e.byteOf(ip, 11), BVLit(0xff, 8)))
	return And(cs...)
}

// ip4 returns (isV4, byte i of To4(ip)).
func (e *Env) ip4(ip Sl) (Term, func(i int) Term) {
	is4 := Eq(ip.Len, IntLit(4))
	mapped := e.v4mapped(ip)
	return Or(is4, mapped), func(i int) Term { return Ite(is4, e.byteOf(ip, i), e.byteOf(ip, 12+i)) }
}

func (e *Env) ipGlobalUnicast(ip Sl) Term {
	isV4, b4 := e.ip4(ip)
	is16 := Eq(ip.Len, IntLit(16))
	eq4 := func(a, b, c2, d byte) Term {
		return And(isV4, Eq(b4(0), BVLit(uint64(a), 8)), Eq(b4(1), BVLit(uint64(b), 8)), Eq(b4(2), BVLit(uint64(c2), 8)), Eq(b4(3), BVLit(uint64(d), 8)))
	}
	all16 := func(last byte) Term {
		cs := []Term{is16}
		for i := 0; i < 15; i++ {
			cs = append(cs, Eq(e.byteOf(ip, i), BVLit(0, 8)))
		}
		cs = append(cs, Eq(e.byteOf(ip, 15), BVLit(uint64(last), 8)))
		return And(cs...)
	}
	bcast := eq4(255, 255, 255, 255)
	unspec := Or(eq4(0, 0, 0, 0), all16(0))
	loop := Or(And(isV4, Eq(b4(0), BVLit(127, 8))), And(Not(isV4), all16(1)))
	mcast := Or(And(isV4, Eq(app("bvand", SBV8, b4(0), BVLit(0xf0, 8)), BVLit(0xe0, 8))), And(Not(isV4), is16, Eq(e.byteOf(ip, 0), BVLit(0xff, 8))))
	llu := Or(And(isV4, Eq(b4(0), BVLit(169, 8)), Eq(b4(1), BVLit(254, 8))),
		And(Not(isV4), is16, Eq(e.byteOf(ip, 0), BVLit(0xfe, 8)), Eq(app("bvand", SBV8, e.byteOf(ip, 1), BVLit(0xc0, 8)), BVLit(0x80, 8))))
	return And(Or(Eq(ip.Len, IntLit(4)), is16), Not(bcast), Not(unspec), Not(loop), Not(mcast), Not(llu))
}

func (e *Env) ipnetContains(nip, mask, ip Sl) Term {
	isV4, b4 := e.ip4(ip)
	band := func(a, m Term) Term { return app("bvand", SBV8, a, m) }
	var c4 []Term
	c4 = append(c4, Eq(nip.Len, IntLit(4)), Eq(mask.Len, IntLit(4)), isV4)
	for i := 0; i < 4; i++ {
		c4 = append(c4, Eq(band(e.byteOf(nip, i), e.byteOf(mask, i)), band(b4(i), e.byteOf(mask, i))))
	}
	var c6 []Term
	c6 = append(c6, Eq(nip.Len, IntLit(16)), Eq(mask.Len, IntLit(16)), Not(e.v4mapped(nip)), Eq(ip.Len, IntLit(16)), Not(isV4))
	for i := 0; i < 16; i++ {
		c6 = append(c6, Eq(band(e.byteOf(nip, i), e.byteOf(mask, i)), band(e.byteOf(ip, i), e.byteOf(mask, i))))
	}
	return Or(And(c4...), And(c6...))
}

// lockOf resolves a mutex expression x.mu to the lock key and owning object.
func (e *Env) lockOf(x Expr) (string, Term, bool) {
	sel, ok := x.(ESel)
	if !ok {
		return "", Term{}, false
	}
	base := e.eval(sel.X)
	_, ref, ok := e.structOf(base)
	if !ok {
		return "", Term{}, false
	}
	return shortTypeKey(derefType(base.t)) + "." + sel.Name, ref, true
}

// evalRequires evaluates a precondition conjunct by conjunct. A conjunct that only fails to evaluate
// because it names a variable the function does not have at all (a captured variable that is no longer
// captured, a removed parameter) says nothing the body could observe: it is dropped with a note rather
// than making the whole contract unevaluable.
func (e *Env) evalRequires(x Expr, fn *ssa.Function) Term {
	if b, ok := x.(EBinary); ok && b.Op == "&&" {
		return And(e.evalRequires(b.X, fn), e.evalRequires(b.Y, fn))
	}
	n0 := len(e.errs)
	g := e.evalBool(x)
	if len(e.errs) == n0 || fn == nil {
		return g
	}
	droppable := true
	sawUnknown := false
	for _, msg := range e.errs[n0:] {
		if strings.HasPrefix(msg, "unknown identifier ") {
			name := strings.Trim(strings.TrimPrefix(msg, "unknown identifier "), "\"")
			if e.c.eng.localType(fn, name) != nil {
				droppable = false
			}
			sawUnknown = true
		}
	}
	if droppable && sawUnknown {
		// only when variables were *removed*: if the function also has names the baseline did not have,
		// it was restructured (a renamed / regrouped variable), and the precondition is simply unevaluable
		if b, ok := e.c.eng.baseShapes[qualFnName(fn)]; ok {
			known := map[string]bool{}
			for _, n := range b.Params {
				known[n] = true
			}
			for _, n := range b.FreeVars {
				known[n] = true
			}
			for _, p := range fn.Params {
				if !known[p.Name()] {
					droppable = false
				}
			}
			for _, fv := range fn.FreeVars {
				if !known[fv.Name()] {
					droppable = false
				}
			}
		}
	}
	if droppable && sawUnknown {
		e.c.note(fmt.Sprintf("precondition conjunct `%s` of %s dropped: it names a variable the function no longer has", x.exprString(), qualFnName(fn)))
		e.errs = e.errs[:n0]
		return True
	}
	return g
}
