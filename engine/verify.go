package main

import (
	"fmt"
	"go/types"
	"path"
	"strings"

	"golang.org/x/tools/go/ssa"
)

type FnResult struct {
	Key        string
	Obls       []*Obligation
	Undecided  []string
	Paths      int
	Returns    int
	Opaque     []string
	Assumed    []string
	Inlined    []string
	Notes      []string
	Decls      *Decls
}

func (e *Engine) newCtx(fn *ssa.Function, key string, props []string) *Ctx {
	return &Ctx{eng: e, d: NewDecls(), ord: map[string]int{}, fn: fn, key: key, opaque: map[string]bool{}, assumedUsed: map[string]bool{},
		inlined: map[string]bool{}, props: props, maxPaths: maxPathsDefault}
}

// verifyFunction checks one function against its contract.
func (e *Engine) verifyFunction(fc *FuncContract) *FnResult {
	return e.verifyFunctionIn(fc, nil)
}

// verifyFunctionIn: as verifyFunction, with the closures named in inContext inlined at their call / go
// sites and their own rules checked there (with the bindings this function gives them).
func (e *Engine) verifyFunctionIn(fc *FuncContract, inContext map[string]bool) *FnResult {
	res := &FnResult{Key: fc.Key}
	fn := e.fnByKey[fc.Key]
	if fn == nil {
		res.Undecided = append(res.Undecided, "function under contract not found in the current tree: "+fc.Key)
		return res
	}
	c := e.newCtx(fn, fc.Key, fc.Props)
	c.inContext = inContext
	res.Decls = c.d
	s := &State{heap: map[string]Term{}}
	var args, binds []Value
	// Parameter slices are modelled as views starting at index 0 of their own array object
	// (assumption: incoming slices are identical views or disjoint, never partially overlapping).
	c.paramMode = true
	for _, p := range fn.Params {
		args = append(args, c.freshValue(s, p.Type(), "p|"+p.Name()))
	}
	c.paramMode = false
	for _, fv := range fn.FreeVars {
		b := c.freshValue(s, fv.Type(), "fv|"+fv.Name())
		if sc, ok := b.(Sc); ok {
			s.assume(Neq(sc.T, IntLit(0))) // captured variables are live cells
		}
		binds = append(binds, b)
	}
	// distinct captured cells are distinct
	for i := range binds {
		for j := i + 1; j < len(binds); j++ {
			a, ok1 := binds[i].(Sc)
			b, ok2 := binds[j].(Sc)
			if ok1 && ok2 && types.Identical(fn.FreeVars[i].Type(), fn.FreeVars[j].Type()) {
				s.assume(Neq(a.T, b.T))
			}
		}
	}
	if len(fn.Blocks) == 0 {
		res.Undecided = append(res.Undecided, "no body: "+fc.Key)
		return res
	}
	c.entryArgs = map[int]Value{}
	for i, a := range args {
		c.entryArgs[i] = a
	}
	if fn.Name() == "init" && fn.Pkg != nil && fn.Parent() == nil {
		// the package initialiser is analysed for its first (only effective) execution
		if g, ok := fn.Pkg.Members["init$guard"].(*ssa.Global); ok {
			c.storeGlobal(s, g, Sc{T: False})
		}
	}
	// lemmas: proved in an arbitrary heap, before any precondition is assumed
	for i, lm := range fc.Lemmas {
		ls := &State{heap: map[string]Term{}}
		lenv := &Env{c: c, s: ls, vars: map[string]tv{}, fn: fn}
		if fn.Pkg != nil {
			lenv.pkg = fn.Pkg.Pkg
		}
		g := lenv.evalBool(lm.Expr)
		if len(lenv.errs) > 0 {
			c.reportEvalErrors(lenv, fc, lm.Src)
			continue
		}
		label := lm.Name
		if label == "" {
			label = fmt.Sprint(i + 1)
		}
		props := lm.Props
		if len(props) == 0 {
			props = fc.Props
		}
		c.oblige(ls, "ensures", fmt.Sprintf("%s/lemma[%s]", fc.Key, label), g, "", "lemma: "+lm.Src, props)
	}
	fr := c.pushFrame(s, fn, args, binds)
	c.collectWitness(s, fn, args)
	env := c.fnEnv(s, fn, fr, args)
	for _, rq := range fc.Requires {
		g := env.evalRequires(rq.Expr, fn)
		c.reportEvalErrors(env, fc, rq.Src)
		s.assume(g)
	}
	for _, h := range fc.Holds {
		if key, base, ok := env.lockOf(h.Expr); ok {
			s.locks = append(s.locks, LockHeld{Key: key, Base: base, Write: true, Level: c.eng.contracts.lockLevels[key]})
			s.seq++
			s.trace = append(s.trace, Event{Name: "lock:" + key, Args: []Value{Sc{T: base}}, PC: len(s.pc), Seq: s.seq})
		} else {
			c.unsupported("holds clause: " + h.Src)
		}
	}
	for _, ul := range fc.UnderLock {
		base := c.freshConst("owner", SInt)
		s.locks = append(s.locks, LockHeld{Key: ul.Key, Base: base, Write: !ul.Read, Level: c.eng.contracts.lockLevels[ul.Key]})
	}
	fr.entry = s.snapshot()
	if len(fc.Holds) > 0 {
		s.atLock = fr.entry
		fc.Goroutine = fc.Goroutine // (locks held on entry are still held on return)
	}
	// vacuity: the precondition set must be satisfiable
	if len(fc.Requires) > 0 {
		c.obls = append(c.obls, &Obligation{Name: fc.Key + "/cover:requires", Fn: fc.Key, Kind: "cover", Assume: append([]Term(nil), s.pc...), Goal: False, Props: fc.Props, Note: "vacuity guard: preconditions must be satisfiable (expected sat)", decls: c.d})
	}
	var out []retPath
	c.execBlock(s, fn.Blocks[0], nil, &out)
	res.Returns = len(out)
	for _, rp := range out {
		c.checkReturn(rp, fc, fn, args)
	}
	// every function under contract contributes at least the statement that its body was explored
	c.structural(c.paths > 0, "explored", fc.Key+"/explored", "", fmt.Sprintf("body translated and explored (%d return paths)", len(out)), fc.Props)
	if fc.Recover {
		c.structural(hasDeferredRecover(fn), "structure", fc.Key+"/structure:deferred-recover", "", "goroutine handling network input must have a deferred recover()", []string{"C18"})
	}
	if fc.LoopFree {
		// "every call returns": the function's termination argument is that it has no loop, so it returns
		// once the calls it makes return and the locks it takes are granted (lock order: separate obligations)
		n := len(c.eng.loopInfo(fn).ordinal)
		c.structural(n == 0, "termination", fc.Key+"/termination:loop-free", "", fmt.Sprintf("every call returns: the body must be loop-free (it has %d loop(s)); a retry loop needs a termination argument", n), []string{"C13"})
	}
	res.Obls = c.obls
	res.Undecided = c.undecided
	res.Paths = c.paths
	res.Opaque = sortedBools(c.opaque)
	res.Assumed = sortedBools(c.assumedUsed)
	res.Inlined = sortedBools(c.inlined)
	res.Notes = c.notes
	return res
}

func hasDeferredRecover(fn *ssa.Function) bool {
	for _, b := range fn.Blocks {
		for _, in := range b.Instrs {
			d, ok := in.(*ssa.Defer)
			if !ok {
				continue
			}
			var callee *ssa.Function
			if mc, ok := d.Call.Value.(*ssa.MakeClosure); ok {
				callee = mc.Fn.(*ssa.Function)
			} else {
				callee = d.Call.StaticCallee()
			}
			if callee == nil {
				continue
			}
			for _, cb := range callee.Blocks {
				for _, ci := range cb.Instrs {
					if call, ok := ci.(*ssa.Call); ok {
						if bi, ok := call.Call.Value.(*ssa.Builtin); ok && bi.Name() == "recover" {
							return true
						}
					}
				}
			}
		}
	}
	return false
}

func (c *Ctx) fnEnv(s *State, fn *ssa.Function, fr *frame, args []Value) *Env {
	env := &Env{c: c, s: s, vars: map[string]tv{}, fn: fn, frame: fr, old: fr.entry}
	root := fn
	for root.Parent() != nil {
		root = root.Parent()
	}
	if root.Pkg != nil {
		env.pkg = root.Pkg.Pkg
	}
	for i, p := range fn.Params {
		if i < len(args) {
			env.vars[p.Name()] = tv{args[i], p.Type()}
		}
	}
	return env
}

func (c *Ctx) checkReturn(rp retPath, fc *FuncContract, fn *ssa.Function, args []Value) {
	if rp.s.dead {
		return
	}
	c.checkReturnFrame(rp, fc, fn, args, rp.s.frames[0], rp.s.trace, false)
}

// checkReturnFrame checks the postconditions and effect rules of fc at a return of fn. With inContext,
// fn was inlined at a call site of the function being verified: fr is its (still pushed) frame and
// trace holds the events since the call, so the same rules are decided with the caller's actual
// bindings of its captured variables instead of unconstrained ones.
func (c *Ctx) checkReturnFrame(rp retPath, fc *FuncContract, fn *ssa.Function, args []Value, fr *frame, trace []Event, inContext bool) {
	s := rp.s
	if s.dead {
		return
	}
	env := c.fnEnv(s, fn, fr, args)
	env.atlock = s.atLock
	env.trace = trace
	sig := fn.Signature.Results()
	for i, v := range rp.vals {
		env.results = append(env.results, tv{v, sig.At(i).Type()})
	}
	if len(fc.GhostAtExit) > 0 && !inContext {
		genv := c.fnEnv(s, fn, fr, args)
		genv.atlock = s.atLock
		genv.results = env.results
		c.applyGhostEnv(s, genv, fc.GhostAtExit)
	}
	// postconditions of an atomic operation speak about the state at its linearisation point (the end
	// of its first critical section): afterwards other threads may already have changed it
	finalHeap := s.heap
	if fc.Atomic && s.atUnlock != nil {
		s.heap = make(map[string]Term, len(s.atUnlock.heap))
		for k, v := range s.atUnlock.heap {
			s.heap[k] = v
		}
	}
	for i, en := range fc.Ensures {
		g := env.evalBool(en.Expr)
		if len(env.errs) > 0 {
			c.reportEvalErrors(env, fc, en.Src)
			continue // cannot be evaluated on this tree: not decided (no alarm)
		}
		label := en.Name
		if label == "" {
			label = fmt.Sprint(i + 1)
		}
		props := en.Props
		if len(props) == 0 {
			props = fc.Props
		}
		c.oblige(s, "ensures", fmt.Sprintf("%s/ensures[%s]", fc.Key, label), g, "", "postcondition: "+en.Src, props)
	}
	s.heap = finalHeap
	if inContext {
		c.checkTraces(s, env, fc, trace, 0)
		return
	}
	// locks must not leak out of a function unless its contract says so
	if len(s.locks) > len(fc.Holds)+len(fc.UnderLock) && !fc.Goroutine {
		var ks []string
		for _, l := range s.locks {
			ks = append(ks, l.Key)
		}
		c.oblige(s, "lock", fc.Key+"/lock:released-at-return", False, "", "returns while holding "+strings.Join(ks, ","), []string{"C13", "C19"})
	}
	c.checkTraces(s, env, fc, s.trace, 0)
	if fc.Atomic {
		c.checkAtomic(s, fc)
	}
}

// checkAtomic: every effect on guarded state and every clock read lies inside one critical section.
// Further critical sections are tolerated only if they are observation-only (no write to a guarded
// field, no map update, no clock read): they cannot change what the operation did at its
// linearisation point, the end of the first critical section, where its postconditions are evaluated.
func (c *Ctx) checkAtomic(s *State, fc *FuncContract) {
	sections := 0 // critical sections entered
	effective := 0
	inCS := false
	ok := true
	why := ""
	var startGW, updates, clocks int
	closeCS := func(gw int) {
		if sections == 1 || gw > startGW || updates > 0 || clocks > 0 {
			effective++
		}
	}
	depth := 0
	for _, ev := range s.trace {
		switch {
		case strings.HasPrefix(ev.Name, "lock:"), strings.HasPrefix(ev.Name, "rlock:"):
			if depth == 0 {
				sections++
				inCS = true
				startGW, updates, clocks = ev.GW, 0, 0
			}
			depth++
		case strings.HasPrefix(ev.Name, "unlock:"):
			depth--
			if depth <= 0 {
				depth = 0
				inCS = false
				closeCS(ev.GW)
			}
		case ev.Name == "mapupdate" || ev.Name == "mapdelete":
			if inCS {
				updates++
			}
		case ev.Name == "clock":
			if inCS {
				clocks++
			}
			if fc.MentionsClock && (!inCS && sections > 0 || (!inCS && sections == 0 && c.pathLocksLater(s, ev))) {
				ok = false
				why = "clock read outside the critical section at " + ev.Pos
			}
		}
	}
	if inCS {
		closeCS(s.gwrites)
	}
	if effective > 1 {
		ok = false
		why = fmt.Sprintf("%d critical sections with effects in an operation declared atomic", effective)
	}
	c.structural(ok, "atomic", fc.Key+"/atomic:single-critical-section", "", "atomic operation: "+why, []string{"C19"})
}

func (c *Ctx) pathLocksLater(s *State, at Event) bool {
	for _, ev := range s.trace {
		if ev.Seq > at.Seq && (strings.HasPrefix(ev.Name, "lock:") || strings.HasPrefix(ev.Name, "rlock:")) {
			return true
		}
	}
	return false
}

// ---------- traces ----------

func matchEvent(pat, name string) bool {
	if pat == name {
		return true
	}
	if strings.Contains(pat, "|") {
		// alternatives: "recv|wg.Wait"
		for _, alt := range strings.Split(pat, "|") {
			if alt != "" && matchEvent(alt, name) {
				return true
			}
		}
		return false
	}
	if ok, _ := path.Match(pat, name); ok {
		return true
	}
	// pattern without package qualifier matches the suffix after the last '.'-separated package
	if !strings.Contains(pat, "*") && strings.HasSuffix(name, "."+pat) {
		return true
	}
	return false
}

func (c *Ctx) checkLoopTraces(s *State, header *ssa.BasicBlock) {
	fr := s.top()
	fc := c.eng.contracts.funcs[qualFnName(fr.fn)]
	if fc == nil || len(fc.Traces) == 0 {
		return
	}
	ord := c.eng.loopInfo(fr.fn).ordinal[header]
	start := fr.loopTraceStart[header]
	if start > len(s.trace) {
		start = len(s.trace)
	}
	env := c.loopEnv(s)
	env.trace = s.trace[start:]
	c.checkTraces(s, env, fc, s.trace[start:], ord)
}

func (c *Ctx) checkTraces(s *State, env *Env, fc *FuncContract, trace []Event, loop int) {
	for i, tr := range fc.Traces {
		if tr.Loop != loop {
			continue
		}
		// a rule about calls of a function whose contract found no function in this tree cannot be decided
		detached := ""
		for k, ofc := range c.eng.contracts.funcs {
			if ofc.Detached && ofc.DetachedAmbiguous && strings.Contains(tr.Src, shortName(k)) {
				detached = k
			}
		}
		if detached != "" {
			c.unsupported(fmt.Sprintf("trace rule of %s refers to %s, whose contract no longer matches any function (in %q)", fc.Key, detached, tr.Src))
			continue
		}
		label := tr.Name
		if label == "" {
			label = fmt.Sprint(i + 1)
		}
		name := fmt.Sprintf("%s/trace[%s]", fc.Key, label)
		props := tr.Props
		if len(props) == 0 {
			props = fc.Props
		}
		if tr.Kind == "holds" {
			g := env.evalBool(tr.Cond)
			bad := len(env.errs) > 0
			c.reportEvalErrors(env, fc, tr.Src)
			if !bad {
				c.oblige(s, "trace", name, g, "", "condition over the path: "+tr.Src, props)
			}
			continue
		}
		if tr.Kind == "each" {
			n := 0
			var onT string
			if tr.On != nil {
				n0 := len(env.errs)
				ov := env.eval(tr.On)
				if len(env.errs) > n0 {
					// the variable naming the channel / receiver does not exist on this path (it is assigned
					// later): no event of this path can be on it
					env.errs = env.errs[:n0]
					onT = "\x00nothing"
				} else if sc, ok := ov.v.(Sc); ok {
					onT = sc.T.S
				} else if iv, ok := ov.v.(If); ok {
					onT = iv.Val.S
				}
			}
			for _, ev := range trace {
				if !matchEvent(tr.A, ev.Name) {
					continue
				}
				if tr.On != nil {
					// only the events on (textually) this receiver / channel
					got := ""
					switch r := ev.Recv.(type) {
					case Sc:
						got = r.T.S
					case If:
						got = r.Val.S
					}
					if got == "" || got != onT {
						continue
					}
				}
				n++
				ce := env.child()
				c.bindEvent(ce, ev)
				g := ce.evalBool(tr.Cond)
				bad := false
				for _, er := range ce.errs[len(env.errs):] {
					c.unsupported(fmt.Sprintf("trace rule of %s: %s (in %q)", fc.Key, er, tr.Src))
					bad = true
				}
				if bad {
					continue // cannot be evaluated on this tree: not decided (no alarm)
				}
				c.oblige(s, "trace", name, g, ev.Pos, "every "+tr.A+" event must satisfy: "+tr.Src, props)
			}
			if n == 0 {
				c.oblige(s, "trace", name, True, "", "trace rule `"+tr.Src+"` (no such event on this path)", props)
			}
			continue
		}
		cond := True
		if tr.Cond != nil {
			nerr := len(env.errs)
			cond = env.evalBool(tr.Cond)
			bad := len(env.errs) > nerr
			c.reportEvalErrors(env, fc, tr.Src)
			if bad {
				continue // the rule's condition cannot be evaluated on this path: not decided (no alarm)
			}
		}
		violated := false
		detail := ""
		if tr.Where != nil && (tr.Kind == "exactly" || tr.Kind == "atmost" || tr.Kind == "atleast") {
			if cond.S == "false" {
				// the rule does not apply to this path (its `when` is decided false while building it)
				c.oblige(s, "trace", name, True, "", "trace rule `"+tr.Src+"` (not applicable on this path)", props)
				continue
			}
			// symbolic count of the events whose operands satisfy the filter
			cnt := IntLit(0)
			bad := false
			for _, ev := range trace {
				if !matchEvent(tr.A, ev.Name) {
					continue
				}
				ce := env.child()
				c.bindEvent(ce, ev)
				g := ce.evalBool(tr.Where)
				for _, er := range ce.errs[len(env.errs):] {
					c.unsupported(fmt.Sprintf("trace rule of %s: %s (in %q)", fc.Key, er, tr.Src))
					bad = true
				}
				cnt = Add(cnt, Ite(g, IntLit(1), IntLit(0)))
			}
			if bad {
				continue
			}
			var goal Term
			switch tr.Kind {
			case "exactly":
				goal = Eq(cnt, IntLit(int64(tr.N)))
			case "atmost":
				goal = Le(cnt, IntLit(int64(tr.N)))
			default:
				goal = Ge(cnt, IntLit(int64(tr.N)))
			}
			c.oblige(s, "trace", name, Implies(cond, goal), "", "trace rule `"+tr.Src+"`", props)
			continue
		}
		switch tr.Kind {
		case "exactly", "atmost", "atleast":
			n := 0
			for _, ev := range trace {
				if matchEvent(tr.A, ev.Name) {
					n++
				}
			}
			switch tr.Kind {
			case "exactly":
				violated = n != tr.N
			case "atmost":
				violated = n > tr.N
			case "atleast":
				violated = n < tr.N
			}
			detail = fmt.Sprintf("%d occurrence(s) of %s on this path", n, tr.A)
		case "never":
			for _, ev := range trace {
				if matchEvent(tr.A, ev.Name) {
					violated = true
					detail = "event " + ev.Name + " at " + ev.Pos
				}
			}
		case "before": // every B is preceded by an A
			seenA := false
			for _, ev := range trace {
				if matchEvent(tr.A, ev.Name) {
					seenA = true
				}
				if matchEvent(tr.B, ev.Name) && !seenA {
					violated = true
					detail = ev.Name + " at " + ev.Pos + " not preceded by " + tr.A
				}
			}
		case "notafter": // no A after a B
			seenB := false
			for _, ev := range trace {
				if matchEvent(tr.B, ev.Name) {
					seenB = true
				} else if matchEvent(tr.A, ev.Name) && seenB {
					violated = true
					detail = ev.Name + " at " + ev.Pos + " occurs after " + tr.B
				}
			}
		}
		if violated {
			// the rule fails on this path unless the path is infeasible or the condition is false
			c.oblige(s, "trace", name, Not(cond), "", "trace rule `"+tr.Src+"` fails on a path: "+detail, props)
		} else {
			c.oblige(s, "trace", name, True, "", "trace rule `"+tr.Src+"`", props)
		}
	}
}

// collectWitness lists the terms that describe the function's inputs (for replay of models).
func (c *Ctx) collectWitness(s *State, fn *ssa.Function, args []Value) {
	add := func(name string, t Term) { c.witness = append(c.witness, WitnessTerm{name, t}) }
	var rec func(name string, v Value, t types.Type, depth int)
	rec = func(name string, v Value, t types.Type, depth int) {
		switch x := v.(type) {
		case Sc:
			if x.T.Sort == SInt || x.T.Sort == SBool || x.T.Sort.IsBV() {
				add(name, x.T)
			}
			if x.T.Sort == SStr {
				add(name+"#strlen", StrLen(c.d, x.T))
			}
		case Sl:
			add(name+"#len", x.Len)
			add(name+"#cap", x.Cap)
			add(name+"#nil", Eq(x.Arr, IntLit(0)))
			if st, ok := t.Underlying().(*types.Slice); ok && scalarSort(st.Elem()) == SBV8 {
				h := c.getHeap(s, "Elem|uint8", ArrSort(SInt, ArrSort(SInt, SBV8)))
				for i := 0; i < 40; i++ {
					add(fmt.Sprintf("%s[%d]", name, i), Select(Select(h, x.Arr), Add(x.Off, IntLit(int64(i)))))
				}
			}
		case If:
			add(name+"#typ", x.Typ)
		case St:
			if st, ok := isStructType(x.Typ); ok && depth < 2 {
				for i, f := range x.F {
					rec(name+"."+st.Field(i).Name(), f, st.Field(i).Type(), depth+1)
				}
			}
		}
	}
	for i, p := range fn.Params {
		if i < len(args) {
			rec(p.Name(), args[i], p.Type(), 0)
		}
	}
}

// bindEvent exposes the operands of a trace event to a contract expression.
func (c *Ctx) bindEvent(env *Env, ev Event) {
	anyT := types.NewInterfaceType(nil, nil)
	typeOf := func(v Value) types.Type {
		switch x := v.(type) {
		case If:
			return anyT
		case St:
			return x.Typ
		case Sl:
			return types.NewSlice(types.Typ[types.Uint8])
		case Sc:
			switch x.T.Sort {
			case SStr:
				return types.Typ[types.String]
			case SBool:
				return types.Typ[types.Bool]
			case SInt:
				return types.Typ[types.Int]
			}
		}
		return nil
	}
	env.curEvent = &ev
	if ev.Recv != nil {
		t := ev.RecvT
		if t == nil {
			t = typeOf(ev.Recv)
		}
		env.vars["$recv"] = tv{ev.Recv, t}
	}
	for i, a := range ev.Args {
		t := typeOf(a)
		if i < len(ev.ArgT) && ev.ArgT[i] != nil {
			t = ev.ArgT[i]
		}
		env.vars[fmt.Sprintf("$arg%d", i)] = tv{a, t}
	}
	if ev.Res != nil {
		if tu, ok := ev.Res.(Tu); ok {
			rt, _ := ev.ResT.(*types.Tuple)
			for i, r := range tu.E {
				t := typeOf(r)
				if rt != nil && i < rt.Len() {
					t = rt.At(i).Type()
				}
				env.vars[fmt.Sprintf("$res%d", i)] = tv{r, t}
			}
		} else {
			t := ev.ResT
			if t == nil {
				t = typeOf(ev.Res)
			}
			env.vars["$res0"] = tv{ev.Res, t}
		}
	}
}
