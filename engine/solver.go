package main

import (
	"bytes"
	"context"
	"crypto/sha256"
	"encoding/hex"
	"fmt"
	"os"
	"os/exec"
	"path/filepath"
	"strings"
	"sync"
	"time"
)

type solverSpec struct {
	Name string
	Cmd  func(file string, timeoutSec int) []string
	Pre  string
}

var solvers = []solverSpec{
	{"z3-5.1.0", func(f string, t int) []string { return []string{"z3-new", fmt.Sprintf("-T:%d", t), f} }, ""},
	{"z3-4.8.12", func(f string, t int) []string { return []string{"z3", fmt.Sprintf("-T:%d", t), f} }, ""},
	{"cvc5-1.0", func(f string, t int) []string {
		return []string{"cvc5", "--lang=smt2", fmt.Sprintf("--tlimit=%d", t*1000), "--incremental", f}
	}, "(set-option :produce-models true)\n(set-logic ALL)\n"},
}

func (o *Obligation) smt(withModel bool) string {
	var sb strings.Builder
	o.decls.Emit(&sb)
	for _, a := range o.Assume {
		sb.WriteString("(assert ")
		sb.WriteString(a.S)
		sb.WriteString(")\n")
	}
	sb.WriteString("(assert (not ")
	sb.WriteString(o.Goal.S)
	sb.WriteString("))\n(check-sat)\n")
	if withModel {
		if len(o.Witness) > 0 {
			sb.WriteString("(get-value (")
			for _, w := range o.Witness {
				sb.WriteString(w.T.S)
				sb.WriteString(" ")
			}
			sb.WriteString("))\n")
		}
		sb.WriteString("(get-model)\n")
	}
	return sb.String()
}

type SolveStats struct {
	mu       sync.Mutex
	ByBackend map[string]int
	Seconds  map[string]float64
	Queries  int
}

// solveAll discharges the obligations in parallel with the solver portfolio.
func solveAll(obls []*Obligation, timeoutSec int, workers int, scratch string, crossCheck bool) *SolveStats {
	st := &SolveStats{ByBackend: map[string]int{}, Seconds: map[string]float64{}}
	type job struct{ o *Obligation }
	jobs := make(chan *Obligation)
	var wg sync.WaitGroup
	// cache identical queries
	var cmu sync.Mutex
	cache := map[string]*Obligation{}
	for w := 0; w < workers; w++ {
		wg.Add(1)
		go func(id int) {
			defer wg.Done()
			for o := range jobs {
				text := o.smt(true)
				o.SMTSize = len(text)
				h := sha256.Sum256([]byte(text))
				key := hex.EncodeToString(h[:])
				cmu.Lock()
				prev, hit := cache[key]
				cmu.Unlock()
				if hit && prev.Verdict != "" {
					o.Verdict, o.Backend, o.Model, o.Seconds = prev.Verdict, prev.Backend+"(cached)", prev.Model, 0
					continue
				}
				file := filepath.Join(scratch, fmt.Sprintf("q%d_%s.smt2", id, key[:12]))
				solveOne(o, text, file, timeoutSec, st, crossCheck)
				os.Remove(file)
				cmu.Lock()
				cache[key] = o
				cmu.Unlock()
			}
		}(w)
	}
	for _, o := range obls {
		if o.Verdict != "" {
			st.mu.Lock()
			st.ByBackend[o.Backend]++
			st.mu.Unlock()
			continue
		}
		jobs <- o
	}
	close(jobs)
	wg.Wait()
	return st
}

func solveOne(o *Obligation, text, file string, timeoutSec int, st *SolveStats, crossCheck bool) {
	verdicts := 0
	for _, sv := range solvers {
		if err := os.WriteFile(file, []byte(sv.Pre+text), 0o644); err != nil {
			o.Verdict = "unknown"
			o.Model = "cannot write query: " + err.Error()
			return
		}
		args := sv.Cmd(file, timeoutSec)
		ctx, cancel := context.WithTimeout(context.Background(), time.Duration(timeoutSec+5)*time.Second)
		cmd := exec.CommandContext(ctx, args[0], args[1:]...)
		var out bytes.Buffer
		cmd.Stdout = &out
		cmd.Stderr = &out
		t0 := time.Now()
		cmd.Run()
		cancel()
		el := time.Since(t0).Seconds()
		first := strings.TrimSpace(strings.SplitN(out.String(), "\n", 2)[0])
		st.mu.Lock()
		st.Queries++
		st.Seconds[sv.Name] += el
		st.mu.Unlock()
		switch first {
		case "unsat":
			if o.Verdict == "" {
				o.Verdict, o.Backend, o.Seconds = "unsat", sv.Name, el
				st.mu.Lock()
				st.ByBackend[sv.Name]++
				st.mu.Unlock()
			} else if o.Verdict != "unsat" {
				o.Model += "\nDISAGREEMENT: " + sv.Name + " says unsat"
			}
			verdicts++
			if !crossCheck || verdicts >= 2 {
				return
			}
		case "sat":
			if o.Verdict == "unsat" {
				o.Verdict = "unknown"
				o.Model = "DISAGREEMENT: " + sv.Name + " says sat after an earlier unsat"
				return
			}
			o.Verdict, o.Backend, o.Seconds = "sat", sv.Name, el
			rest := out.String()
			if i := strings.Index(rest, "\n"); i >= 0 {
				rest = rest[i+1:]
			}
			o.Model = rest
			o.Values = parseValues(rest, o.Witness)
			return
		default:
			// unknown / timeout / error: try the next solver
			if o.Model == "" || !strings.Contains(o.Model, "says") {
				o.Model += fmt.Sprintf("[%s: %s] ", sv.Name, truncate(first, 120))
			}
		}
	}
	if o.Verdict == "" {
		o.Verdict = "unknown"
	}
}

func truncate(s string, n int) string {
	if len(s) > n {
		return s[:n] + "..."
	}
	return s
}

// parseValues reads the answer of (get-value (t1 ... tn)): ((t1 v1) ... (tn vn)).
func parseValues(out string, ws []WitnessTerm) map[string]string {
	if len(ws) == 0 {
		return nil
	}
	out = strings.TrimSpace(out)
	if !strings.HasPrefix(out, "((") {
		return nil
	}
	// split the top-level list into its pair elements
	res := map[string]string{}
	depth := 0
	start := -1
	idx := 0
	for i := 0; i < len(out); i++ {
		switch out[i] {
		case '|':
			// quoted symbol: skip to the closing bar
			j := strings.IndexByte(out[i+1:], '|')
			if j < 0 {
				return res
			}
			i += j + 1
		case '(':
			depth++
			if depth == 2 {
				start = i
			}
		case ')':
			if depth == 2 && start >= 0 && idx < len(ws) {
				pair := out[start+1 : i]
				// the value is the last s-expression of the pair; the term is a known prefix
				term := ws[idx].T.S
				val := strings.TrimSpace(pair)
				if strings.HasPrefix(val, term) {
					val = strings.TrimSpace(val[len(term):])
				} else {
					// solvers may reprint the term; take the last token / s-expr
					val = lastSexpr(val)
				}
				res[ws[idx].Name] = val
				idx++
				start = -1
			}
			depth--
			if depth == 0 {
				return res
			}
		}
	}
	return res
}

func lastSexpr(s string) string {
	s = strings.TrimSpace(s)
	if strings.HasSuffix(s, ")") {
		d := 0
		for i := len(s) - 1; i >= 0; i-- {
			if s[i] == ')' {
				d++
			} else if s[i] == '(' {
				d--
				if d == 0 {
					return s[i:]
				}
			}
		}
	}
	if i := strings.LastIndexAny(s, " \t\n"); i >= 0 {
		return s[i+1:]
	}
	return s
}
