package main

// Validation by execution of the engine's transcriptions of net.IP.IsGlobalUnicast and
// (*net.IPNet).Contains (assumed contracts of C05 / C20): for sampled and boundary addresses
// the closed-form SMT formula must agree with the real standard-library function. One solver
// query per batch: (or (distinct formula_i real_i) ...) must be unsat.

import (
	"fmt"
		"math/rand"
	"net"
	"os"
	"os/exec"
	"path/filepath"
	"strings"
)

func validateNetTranscriptions(seed int64, n int) (checked int, err error) {
	rng := rand.New(rand.NewSource(seed))
	var ips []net.IP
	add := func(ip net.IP) { ips = append(ips, ip) }
	edges := []string{"0.0.0.0", "255.255.255.255", "127.0.0.1", "127.255.255.255", "126.255.255.255", "128.0.0.0", "169.254.0.0", "169.254.255.255", "169.253.255.255", "169.255.0.0",
		"224.0.0.0", "239.255.255.255", "223.255.255.255", "240.0.0.0", "10.0.0.0", "10.255.255.255", "9.255.255.255", "11.0.0.0", "172.16.0.0", "172.31.255.255", "172.15.255.255", "172.32.0.0",
		"192.168.0.0", "192.168.255.255", "192.167.255.255", "192.169.0.0", "100.64.0.0", "100.127.255.255", "100.63.255.255", "100.128.0.0", "8.8.8.8",
		"::", "::1", "::2", "fe80::", "febf:ffff::1", "fec0::", "fe7f:ffff::", "ff00::", "ffff::1", "feff::", "fc00::", "fdff:ffff::1", "fbff::", "fe00::", "2001:db8::1", "2606:4700::1111", "::ffff:0:0", "::fffe:a00:1"}
	for _, s := range edges {
		ip := net.ParseIP(s)
		add(ip)
		if v4 := ip.To4(); v4 != nil {
			add(v4)
		}
	}
	for i := 0; i < n; i++ {
		l := []int{4, 16, 16, 4, 0, 3, 5, 15, 17}[rng.Intn(9)]
		ip := make(net.IP, l)
		rng.Read(ip)
		if l == 16 && rng.Intn(3) == 0 { // v4-mapped
			copy(ip, net.ParseIP("::ffff:0:0"))
			rng.Read(ip[12:])
		}
		if l >= 4 && rng.Intn(2) == 0 { // bias towards interesting first bytes
			ip[len(ip)-4] = []byte{0, 10, 100, 127, 169, 172, 192, 224, 255}[rng.Intn(9)]
		}
		add(ip)
	}
	nets := []string{"10.0.0.0/8", "172.16.0.0/12", "192.168.0.0/16", "fc00::/7", "100.64.0.0/10", "0.0.0.0/0", "::/0", "192.0.2.128/25", "2001:db8::/33", "255.255.255.255/32"}
	dir, err := os.MkdirTemp("/var/tmp", "govc-validate.")
	if err != nil {
		return 0, err
	}
	defer os.RemoveAll(dir)
	type res struct {
		n   int
		err error
	}
	results := make(chan res, len(ips))
	sem := make(chan struct{}, 16)
	for i, ip := range ips {
		i, ip := i, ip
		sem <- struct{}{}
		go func() {
			defer func() { <-sem }()
			c := &Ctx{eng: &Engine{heapSorts: map[string]Sort{}, contracts: NewContracts()}, d: NewDecls(), ord: map[string]int{}, opaque: map[string]bool{}, assumedUsed: map[string]bool{}, inlined: map[string]bool{}}
			s := &State{heap: map[string]Term{}}
			env := &Env{c: c, s: s, vars: map[string]tv{}}
			mkSlice := func(name string, b []byte) Sl {
				arr := c.d.Const(name, SInt)
				inner := Term{"((as const (Array Int (_ BitVec 8))) #x00)", ArrSort(SInt, SBV8)}
				for j, x := range b {
					inner = Store(inner, IntLit(int64(j)), BVLit(uint64(x), 8))
				}
				h := c.getHeap(s, "Elem|uint8", ArrSort(SInt, ArrSort(SInt, SBV8)))
				c.setHeap(s, "Elem|uint8", Store(h, arr, inner))
				return Sl{Arr: arr, Off: IntLit(0), Len: IntLit(int64(len(b))), Cap: IntLit(int64(len(b)))}
			}
			n := 0
			var names []string
			sl := mkSlice("ip", ip)
			names = append(names, "ip")
			var disj []Term
			disj = append(disj, Neq(env.ipGlobalUnicast(sl), BoolLit(ip.IsGlobalUnicast())))
			n++
			for k, ns := range nets {
				_, nw, _ := net.ParseCIDR(ns)
				nip := mkSlice(fmt.Sprintf("n%d_ip", k), nw.IP)
				mask := mkSlice(fmt.Sprintf("n%d_mask", k), nw.Mask)
				names = append(names, fmt.Sprintf("n%d_ip", k), fmt.Sprintf("n%d_mask", k))
				disj = append(disj, Neq(env.ipnetContains(nip, mask, sl), BoolLit(nw.Contains(ip))))
				n++
			}
			var sb strings.Builder
			c.d.Emit(&sb)
			sb.WriteString("(assert (distinct " + strings.Join(names, " ") + "))\n")
			for _, a := range s.pc {
				sb.WriteString("(assert " + a.S + ")\n")
			}
			sb.WriteString("(assert " + Or(disj...).S + ")\n(check-sat)\n")
			f := filepath.Join(dir, fmt.Sprintf("v%d.smt2", i))
			os.WriteFile(f, []byte(sb.String()), 0o644)
			out, _ := exec.Command("z3-new", "-T:30", f).CombinedOutput()
			first := strings.TrimSpace(strings.SplitN(string(out), "\n", 2)[0])
			if first != "unsat" {
				results <- res{n, fmt.Errorf("transcription of net.IP.IsGlobalUnicast / (*IPNet).Contains disagrees with the standard library for address % x (solver says %q)", []byte(ip), first)}
				return
			}
			results <- res{n, nil}
		}()
	}
	for range ips {
		r := <-results
		checked += r.n
		if r.err != nil && err == nil {
			err = r.err
		}
	}
	if err != nil {
		return checked, err
	}
	return checked, nil
}
