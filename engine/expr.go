package main

// Parser for contract expressions (Gobra-flavoured Go expressions).
//
//   e ::= forall x T :: e | exists x T :: e | e ==> e | e || e | e && e | !e
//       | e (== != < <= > >=) e | e (+ - * / %) e | -e
//       | old(e) | atlock(e) | len(e) | has(m, k) | f(args) | e.f | e[i] | e[lo:hi]
//       | result | result.N | ident | int | "string" | true | false | nil | (e) | *e

import (
	"fmt"
	"strconv"
	"strings"
	"unicode"
)

type Expr interface{ exprString() string }

type (
	EIdent  struct{ Name string }
	EInt    struct{ V string }
	EStr    struct{ V string }
	EBool   struct{ V bool }
	ENil    struct{}
	EUnary  struct{ Op string; X Expr }
	EBinary struct{ Op string; X, Y Expr }
	ECall   struct{ Fn string; Args []Expr }
	ESel    struct{ X Expr; Name string }
	EIndex  struct{ X, I Expr }
	ESlice  struct{ X, Lo, Hi Expr }
	EQuant  struct{ Forall bool; Var, Type string; Body Expr }
	EResult struct{ N int }
	ECond   struct{ C, A, B Expr }
	EProj   struct{ X Expr; N int } // k-th component of a tuple-valued expression
)

func (e EIdent) exprString() string  { return e.Name }
func (e EInt) exprString() string    { return e.V }
func (e EStr) exprString() string    { return strconv.Quote(e.V) }
func (e EBool) exprString() string   { return fmt.Sprint(e.V) }
func (e ENil) exprString() string    { return "nil" }
func (e EUnary) exprString() string  { return e.Op + e.X.exprString() }
func (e EBinary) exprString() string { return "(" + e.X.exprString() + " " + e.Op + " " + e.Y.exprString() + ")" }
func (e ECall) exprString() string {
	var as []string
	for _, a := range e.Args {
		as = append(as, a.exprString())
	}
	return e.Fn + "(" + strings.Join(as, ", ") + ")"
}
func (e ESel) exprString() string   { return e.X.exprString() + "." + e.Name }
func (e EIndex) exprString() string { return e.X.exprString() + "[" + e.I.exprString() + "]" }
func (e ESlice) exprString() string { return e.X.exprString() + "[:]" }
func (e EQuant) exprString() string {
	q := "exists"
	if e.Forall {
		q = "forall"
	}
	return q + " " + e.Var + " " + e.Type + " :: " + e.Body.exprString()
}
func (e EProj) exprString() string   { return fmt.Sprintf("%s.%d", e.X.exprString(), e.N) }
func (e EResult) exprString() string { return fmt.Sprintf("result.%d", e.N) }
func (e ECond) exprString() string {
	return "ite(" + e.C.exprString() + ", " + e.A.exprString() + ", " + e.B.exprString() + ")"
}

type tok struct {
	kind string // ident, int, str, op, eof
	s    string
}

type exprParser struct {
	toks []tok
	pos  int
}

func lexExpr(s string) ([]tok, error) {
	var out []tok
	i := 0
	for i < len(s) {
		ch := s[i]
		switch {
		case ch == ' ' || ch == '\t':
			i++
		case unicode.IsLetter(rune(ch)) || ch == '_' || ch == '$':
			j := i + 1
			for j < len(s) && (unicode.IsLetter(rune(s[j])) || unicode.IsDigit(rune(s[j])) || s[j] == '_' || s[j] == '$') {
				j++
			}
			out = append(out, tok{"ident", s[i:j]})
			i = j
		case unicode.IsDigit(rune(ch)):
			j := i + 1
			for j < len(s) && (unicode.IsDigit(rune(s[j])) || s[j] == '_' || s[j] == 'x' || (s[j] >= 'a' && s[j] <= 'f') || (s[j] >= 'A' && s[j] <= 'F')) {
				j++
			}
			out = append(out, tok{"int", strings.ReplaceAll(s[i:j], "_", "")})
			i = j
		case ch == '"':
			j := i + 1
			for j < len(s) && s[j] != '"' {
				if s[j] == '\\' {
					j++
				}
				j++
			}
			if j >= len(s) {
				return nil, fmt.Errorf("unterminated string")
			}
			v, err := strconv.Unquote(s[i : j+1])
			if err != nil {
				return nil, err
			}
			out = append(out, tok{"str", v})
			i = j + 1
		default:
			for _, op := range []string{"==>", "<==>", "::", "==", "!=", "<=", ">=", "&&", "||", ":=", "(", ")", "[", "]", "{", "}", ",", ".", "<", ">", "+", "-", "*", "/", "%", "!", ":", "&"} {
				if strings.HasPrefix(s[i:], op) {
					out = append(out, tok{"op", op})
					i += len(op)
					goto next
				}
			}
			return nil, fmt.Errorf("unexpected character %q at %d", ch, i)
		next:
		}
	}
	out = append(out, tok{"eof", ""})
	return out, nil
}

func ParseExpr(s string) (Expr, error) {
	toks, err := lexExpr(s)
	if err != nil {
		return nil, err
	}
	p := &exprParser{toks: toks}
	e, err := p.parseImpl()
	if err != nil {
		return nil, err
	}
	if p.peek().kind != "eof" {
		return nil, fmt.Errorf("unexpected %q after expression", p.peek().s)
	}
	return e, nil
}

func (p *exprParser) peek() tok { return p.toks[p.pos] }
func (p *exprParser) next() tok { t := p.toks[p.pos]; p.pos++; return t }
func (p *exprParser) isOp(s string) bool {
	t := p.peek()
	return t.kind == "op" && t.s == s
}
func (p *exprParser) expectOp(s string) error {
	if !p.isOp(s) {
		return fmt.Errorf("expected %q, found %q", s, p.peek().s)
	}
	p.pos++
	return nil
}

func (p *exprParser) parseImpl() (Expr, error) {
	// quantifiers bind loosest
	if t := p.peek(); t.kind == "ident" && (t.s == "forall" || t.s == "exists") {
		p.next()
		v := p.next()
		if v.kind != "ident" {
			return nil, fmt.Errorf("expected variable after quantifier")
		}
		// type: tokens up to '::'
		var ty []string
		for !p.isOp("::") {
			if p.peek().kind == "eof" {
				return nil, fmt.Errorf("expected :: in quantifier")
			}
			ty = append(ty, p.next().s)
		}
		p.next()
		body, err := p.parseImpl()
		if err != nil {
			return nil, err
		}
		return EQuant{Forall: t.s == "forall", Var: v.s, Type: strings.Join(ty, ""), Body: body}, nil
	}
	l, err := p.parseOr()
	if err != nil {
		return nil, err
	}
	if p.isOp("==>") {
		p.next()
		r, err := p.parseImpl() // right associative
		if err != nil {
			return nil, err
		}
		return EBinary{"==>", l, r}, nil
	}
	if p.isOp("<==>") {
		p.next()
		r, err := p.parseImpl()
		if err != nil {
			return nil, err
		}
		return EBinary{"<==>", l, r}, nil
	}
	return l, nil
}

func (p *exprParser) parseOr() (Expr, error) {
	l, err := p.parseAnd()
	if err != nil {
		return nil, err
	}
	for p.isOp("||") {
		p.next()
		r, err := p.parseAnd()
		if err != nil {
			return nil, err
		}
		l = EBinary{"||", l, r}
	}
	return l, nil
}

func (p *exprParser) parseAnd() (Expr, error) {
	l, err := p.parseCmp()
	if err != nil {
		return nil, err
	}
	for p.isOp("&&") {
		p.next()
		r, err := p.parseCmp()
		if err != nil {
			return nil, err
		}
		l = EBinary{"&&", l, r}
	}
	return l, nil
}

func (p *exprParser) parseCmp() (Expr, error) {
	l, err := p.parseAdd()
	if err != nil {
		return nil, err
	}
	for {
		t := p.peek()
		if t.kind == "op" && (t.s == "==" || t.s == "!=" || t.s == "<" || t.s == "<=" || t.s == ">" || t.s == ">=") {
			p.next()
			r, err := p.parseAdd()
			if err != nil {
				return nil, err
			}
			// chained comparisons a <= b <= c mean a <= b && b <= c
			if lb, ok := l.(EBinary); ok && isOrderOp(lb.Op) && isOrderOp(t.s) {
				l = EBinary{"&&", l, EBinary{t.s, lb.Y, r}}
			} else {
				l = EBinary{t.s, l, r}
			}
			continue
		}
		return l, nil
	}
}

func isOrderOp(op string) bool {
	switch op {
	case "<", "<=", ">", ">=":
		return true
	}
	return false
}

func isCmpOp(op string) bool {
	switch op {
	case "==", "!=", "<", "<=", ">", ">=":
		return true
	}
	return false
}

func (p *exprParser) parseAdd() (Expr, error) {
	l, err := p.parseMul()
	if err != nil {
		return nil, err
	}
	for p.isOp("+") || p.isOp("-") {
		op := p.next().s
		r, err := p.parseMul()
		if err != nil {
			return nil, err
		}
		l = EBinary{op, l, r}
	}
	return l, nil
}

func (p *exprParser) parseMul() (Expr, error) {
	l, err := p.parseUnary()
	if err != nil {
		return nil, err
	}
	for p.isOp("*") || p.isOp("/") || p.isOp("%") {
		op := p.next().s
		r, err := p.parseUnary()
		if err != nil {
			return nil, err
		}
		l = EBinary{op, l, r}
	}
	return l, nil
}

func (p *exprParser) parseUnary() (Expr, error) {
	if p.isOp("!") || p.isOp("-") || p.isOp("*") || p.isOp("&") {
		op := p.next().s
		x, err := p.parseUnary()
		if err != nil {
			return nil, err
		}
		return EUnary{op, x}, nil
	}
	return p.parsePostfix()
}

func (p *exprParser) parsePostfix() (Expr, error) {
	x, err := p.parsePrimary()
	if err != nil {
		return nil, err
	}
	for {
		switch {
		case p.isOp("."):
			p.next()
			t := p.next()
			if t.kind == "int" {
				if _, ok := x.(EResult); ok {
					n, _ := strconv.Atoi(t.s)
					x = EResult{N: n}
					continue
				}
				n, _ := strconv.Atoi(t.s)
				x = EProj{x, n}
				continue
			}
			if t.kind != "ident" {
				return nil, fmt.Errorf("expected field name after '.'")
			}
			x = ESel{x, t.s}
		case p.isOp("["):
			p.next()
			var lo, hi Expr
			if !p.isOp(":") {
				lo, err = p.parseImpl()
				if err != nil {
					return nil, err
				}
			}
			if p.isOp(":") {
				p.next()
				if !p.isOp("]") {
					hi, err = p.parseImpl()
					if err != nil {
						return nil, err
					}
				}
				if err := p.expectOp("]"); err != nil {
					return nil, err
				}
				x = ESlice{x, lo, hi}
				continue
			}
			if err := p.expectOp("]"); err != nil {
				return nil, err
			}
			x = EIndex{x, lo}
		default:
			return x, nil
		}
	}
}

func (p *exprParser) parsePrimary() (Expr, error) {
	t := p.next()
	switch t.kind {
	case "int":
		v := t.s
		if strings.HasPrefix(v, "0x") {
			n, err := strconv.ParseUint(v[2:], 16, 64)
			if err != nil {
				return nil, err
			}
			v = strconv.FormatUint(n, 10)
		}
		return EInt{v}, nil
	case "str":
		return EStr{t.s}, nil
	case "ident":
		switch t.s {
		case "true":
			return EBool{true}, nil
		case "false":
			return EBool{false}, nil
		case "nil":
			return ENil{}, nil
		case "result":
			return EResult{N: -1}, nil
		}
		if p.isOp("(") {
			p.next()
			var args []Expr
			for !p.isOp(")") {
				a, err := p.parseImpl()
				if err != nil {
					return nil, err
				}
				args = append(args, a)
				if p.isOp(",") {
					p.next()
				} else if !p.isOp(")") {
					return nil, fmt.Errorf("expected , or ) in call")
				}
			}
			p.next()
			if t.s == "ite" && len(args) == 3 {
				return ECond{args[0], args[1], args[2]}, nil
			}
			return ECall{t.s, args}, nil
		}
		return EIdent{t.s}, nil
	case "op":
		if t.s == "(" {
			e, err := p.parseImpl()
			if err != nil {
				return nil, err
			}
			if err := p.expectOp(")"); err != nil {
				return nil, err
			}
			return e, nil
		}
	}
	return nil, fmt.Errorf("unexpected token %q", t.s)
}
