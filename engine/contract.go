package main

// Contract files: comment-only Go files (//go:build verif) in the repo packages,
// plus /verif/contracts/assumed/*.contract for dependencies. Every line of
// interest starts with "//@" (repo files) or is taken verbatim (assumed files).

import (
	"fmt"
	"os"
	"path/filepath"
	"regexp"
	"strconv"
	"strings"
)

type Clause struct {
	Kind  string   // requires, ensures, invariant, ...
	Props []string // property tags
	Name  string   // optional label
	Expr  Expr
	Src   string
	File  string
	Line  int
	Loop  int // loop ordinal for invariants
}

type GhostAssign struct {
	Target Expr // field selector or map element
	Value  Expr
	Src    string
}

type TraceRule struct {
	Kind  string // "exactly", "atmost", "atleast", "before", "never", "only-if", "after-all", "args"
	Props []string
	Name  string
	A, B  string // event patterns
	N     int
	Cond  Expr // optional condition (over final state)
	Src   string
	File  string
	Line  int
	Loop  int // 0 = whole function; k = one iteration of loop k
	Where Expr // exactly/atmost/atleast N EVENT where EXPR: only the events whose operands satisfy EXPR are counted
	On    Expr // each EVENT[expr] ...: only events whose receiver / channel is (textually) the value of expr
}

type underLock struct {
	Key  string
	Read bool
}

type FuncContract struct {
	Key      string
	Pkg      string
	Props    []string
	Requires []*Clause
	Ensures  []*Clause
	LoopInv  map[int][]*Clause
	Traces   []*TraceRule
	GhostAtUnlock []GhostAssign
	GhostAtExit   []GhostAssign
	Atomic   bool
	Inline   bool   // never use the contract at call sites; inline instead
	Assumed  bool   // external: body not verified
	Pure     bool   // result is a function of the arguments (assumed contracts)
	Fresh    bool   // result is a freshly allocated object
	Modifies []Expr // assumed contracts: what the call may write
	mayPanic bool
	Event    string // calls to this function are recorded as events under this name
	NoBody   bool
	File     string
	Line     int
	HasSpec  bool // has requires/ensures (modular use at call sites)
	Opaque   bool // treat calls as opaque (no contract, no inlining)
	Goroutine bool // entry point of a goroutine: no caller context
	LoopName map[int]int // current loop ordinal -> ordinal the contract (the baseline) uses for that loop
	LoopsRemapped bool // loop ordinals of the clauses were translated to the current tree (loops added / removed / reordered)
	DetachedAmbiguous bool // detached, and another function now sits under this contract's key (calls to "it" cannot be told apart)
	MentionsClock bool // some clause of the contract speaks about clock(): the time a clock is read relative to the critical section matters
	Detached bool   // no function of the current tree matches what this contract was written for
	Rebound  string // the function (by its own name) this contract was re-bound to, if not the one its key names
	NotThreadSafe bool // (assumed) the method mutates its receiver without synchronisation: the receiver must be unshared or locked
	Recover  bool  // must contain a deferred recover (C18 structural)
	LoopFree bool  // termination argument: the body has no loop (every call returns once its calls and lock acquisitions do)
	Params   []string // assumed contracts: parameter names
	Clock    bool     // result is a read of the monotone ghost clock
	Unroll   map[int]int // loop ordinal -> unrolling bound (with unwinding assertion)
	AcquiresLevelDeclared bool
	AcquiresLevel int // lowest lock level this function may acquire (0: acquires no levelled lock)
	Aliases  bool // results may alias the arguments at arbitrary offsets (keep slice offsets symbolic)
	ArithTrusted string
	TrustedAccess map[string]string
	Lemmas   []*Clause
	Holds    []*Clause
	UnderLock []underLock
	AssumeAtLock []*Clause
	DepVerified bool // dependency function verified from its own SSA
	Unverified bool
	UnverifiedWhy string
}

type PredDef struct {
	Name   string
	Params []Param
	Body   Expr
	Src    string
}

type Param struct {
	Name string
	Type string
}

type GuardDecl struct {
	Struct string   // type key e.g. github.com/.../service.ReplayCache
	Fields []string
	Mutex  string // field name of the mutex ("" for embedded RWMutex: "RWMutex")
	Class  string // "mutex", "immutable", "confined", "init-before-spawn"
	Note   string
}

type LockInv struct {
	Struct string
	Mutex  string
	Self   string
	Body   Expr
	Src    string
	Props  []string
}

type GhostField struct {
	Struct string
	Name   string
	Type   string // "int", "bool", "map[uint32]int", ...
}

type ChanInv struct {
	Name string // chan identified by source variable name within function
	Fn   string
	Var  string
	Body Expr
}

type frozenDecl struct {
	Props  []string
	Global string // "crypto/rand.Reader"
	Note   string
}

type Contracts struct {
	funcs      map[string]*FuncContract // by key (package-qualified short: "service.(*ReplayCache).Add")
	preds      map[string]*PredDef
	guards     []*GuardDecl
	lockLevels map[string]int // "service.listenerManager.mu" -> level
	lockInvs   map[string]*LockInv
	ghosts     map[string]*GhostField // "service.ReplayCache.now"
	events     map[string]string      // callee pattern -> event name
	files      []string
	required   map[string][]string // property -> obligation names that must exist
	inlineExtern []string
	frozen     []frozenDecl // globals of other packages that no repo code may assign (assumed contracts rest on them)
	dispatch   map[string]string // interface method -> implementing function key
	tainted    []string
	sinks      []string
	declass    []string
}

func NewContracts() *Contracts {
	return &Contracts{funcs: map[string]*FuncContract{}, preds: map[string]*PredDef{}, lockLevels: map[string]int{},
		lockInvs: map[string]*LockInv{}, ghosts: map[string]*GhostField{}, events: map[string]string{}, required: map[string][]string{}, dispatch: map[string]string{}}
}

var tagRe = regexp.MustCompile(`^(\w[\w-]*)(?:\[([^\]]*)\])?\s*(.*)$`)

// LoadContractFile parses one contract file. pkg is the short package name
// used to qualify function keys (e.g. "service").
func (cs *Contracts) LoadContractFile(path, pkg string, repoStyle bool) error {
	data, err := os.ReadFile(path)
	if err != nil {
		return err
	}
	cs.files = append(cs.files, path)
	var cur *FuncContract
	lines := strings.Split(string(data), "\n")
	// join continuation lines: a line ending with '\' continues
	for i := 0; i < len(lines); i++ {
		raw := lines[i]
		lineNo := i + 1
		line := strings.TrimSpace(raw)
		if repoStyle {
			if !strings.HasPrefix(line, "//@") {
				continue
			}
			line = strings.TrimSpace(line[3:])
		} else {
			if strings.HasPrefix(line, "#") || line == "" {
				continue
			}
		}
		for strings.HasSuffix(line, "\\") && i+1 < len(lines) {
			i++
			nx := strings.TrimSpace(lines[i])
			if repoStyle {
				nx = strings.TrimSpace(strings.TrimPrefix(nx, "//@"))
			}
			line = strings.TrimSuffix(line, "\\") + " " + nx
		}
		if line == "" {
			continue
		}
		// strip trailing comment introduced by " // "
		if j := strings.Index(line, " // "); j >= 0 {
			line = strings.TrimSpace(line[:j])
		}
		m := tagRe.FindStringSubmatch(line)
		if m == nil {
			return fmt.Errorf("%s:%d: cannot parse contract line %q", path, lineNo, line)
		}
		kw, tags, rest := m[1], m[2], strings.TrimSpace(m[3])
		var props []string
		var label string
		for _, t := range strings.Fields(strings.ReplaceAll(tags, ",", " ")) {
			if strings.HasPrefix(t, "C") && len(t) >= 3 && t[1] >= '0' && t[1] <= '9' {
				props = append(props, t)
			} else {
				label = t
			}
		}
		perr := func(e error) error { return fmt.Errorf("%s:%d: %v (in %q)", path, lineNo, e, line) }
		switch kw {
		case "package":
			pkg = rest
		case "func":
			key := rest
			if !strings.Contains(key, ".") || strings.HasPrefix(key, "(") {
				key = pkg + "." + key
			} else if !strings.HasPrefix(key, pkg+".") && repoStyle {
				key = pkg + "." + key
			}
			if !repoStyle {
				key = rest
			}
			cur = &FuncContract{Key: key, Pkg: pkg, LoopInv: map[int][]*Clause{}, File: path, Line: lineNo, Assumed: !repoStyle}
			if old, ok := cs.funcs[key]; ok {
				return perr(fmt.Errorf("duplicate contract for %s (first at %s:%d)", key, old.File, old.Line))
			}
			cs.funcs[key] = cur
		case "props":
			if cur == nil {
				return perr(fmt.Errorf("props outside func"))
			}
			cur.Props = strings.Fields(rest)
		case "params":
			cur.Params = strings.Fields(strings.ReplaceAll(rest, ",", " "))
		case "holds":
			// holds x.mu : the caller holds this mutex exclusively (checked at call sites)
			e, err := ParseExpr(rest)
			if err != nil {
				return perr(err)
			}
			cur.Holds = append(cur.Holds, &Clause{Kind: kw, Expr: e, Src: rest, File: path, Line: lineNo})
			cur.HasSpec = true
		case "under-lock":
			// under-lock T.mu [read] : the caller holds the mutex T.mu of some object (the owner of the data
			// this function works on); `read` if a read lock suffices. Checked at call sites.
			f := strings.Fields(rest)
			if len(f) == 0 {
				return perr(fmt.Errorf("expected under-lock T.mu [read]"))
			}
			cur.UnderLock = append(cur.UnderLock, underLock{Key: pkg + "." + f[0], Read: len(f) > 1 && f[1] == "read"})
			cur.HasSpec = true
		case "lemma":
			// lemma[Cxx,label] E : a state-independent fact needed by the argument, proved as its own
			// obligation in an arbitrary heap (attached to a function block only for bookkeeping)
			e, err := ParseExpr(rest)
			if err != nil {
				return perr(err)
			}
			cur.Lemmas = append(cur.Lemmas, &Clause{Kind: kw, Props: props, Name: label, Expr: e, Src: rest, File: path, Line: lineNo})
		case "assume-at-lock":
			// a fact about the guarded state, assumed right after the function's first Lock; an
			// assumption (listed in the evidence), e.g. an ownership argument that is not mechanised
			e, err := ParseExpr(rest)
			if err != nil {
				return perr(err)
			}
			cur.AssumeAtLock = append(cur.AssumeAtLock, &Clause{Kind: kw, Props: props, Name: label, Expr: e, Src: rest, File: path, Line: lineNo})
		case "requires", "ensures":
			if cur == nil {
				return perr(fmt.Errorf("%s outside func", kw))
			}
			e, err := ParseExpr(rest)
			if err != nil {
				return perr(err)
			}
			cl := &Clause{Kind: kw, Props: props, Name: label, Expr: e, Src: rest, File: path, Line: lineNo}
			if kw == "requires" {
				cur.Requires = append(cur.Requires, cl)
			} else {
				cur.Ensures = append(cur.Ensures, cl)
			}
			cur.HasSpec = true
		case "loop":
			// loop N invariant E
			f := strings.SplitN(rest, " ", 3)
			if len(f) == 3 && f[1] == "unroll" {
				n, err1 := strconv.Atoi(f[0])
				k, err2 := strconv.Atoi(strings.TrimSpace(f[2]))
				if err1 != nil || err2 != nil {
					return perr(fmt.Errorf("expected: loop N unroll K"))
				}
				if cur.Unroll == nil {
					cur.Unroll = map[int]int{}
				}
				cur.Unroll[n] = k
				continue
			}
			if len(f) < 3 || f[1] != "invariant" {
				return perr(fmt.Errorf("expected: loop N invariant E"))
			}
			n, err := strconv.Atoi(f[0])
			if err != nil {
				return perr(err)
			}
			e, err := ParseExpr(f[2])
			if err != nil {
				return perr(err)
			}
			cur.LoopInv[n] = append(cur.LoopInv[n], &Clause{Kind: "invariant", Props: props, Name: label, Expr: e, Src: f[2], File: path, Line: lineNo, Loop: n})
		case "abstract":
			cur.Assumed = true
		case "trusted-access":
			// trusted-access T.f reason... : accesses to this guarded field in this function are
			// exempt from the lock discipline (listed as an assumption)
			f := strings.SplitN(rest, " ", 2)
			if cur.TrustedAccess == nil {
				cur.TrustedAccess = map[string]string{}
			}
			why := ""
			if len(f) > 1 {
				why = f[1]
			}
			cur.TrustedAccess[pkg+"."+f[0]] = why
		case "arith-trusted":
			cur.ArithTrusted = rest
			if rest == "" {
				cur.ArithTrusted = "integer sums assumed not to overflow"
			}
		case "aliases":
			cur.Aliases = true
		case "acquires-level":
			n, err := strconv.Atoi(rest)
			if err != nil {
				return perr(err)
			}
			cur.AcquiresLevel = n
			cur.AcquiresLevelDeclared = true
		case "unverified":
			// body not (yet) checked against this contract: used at call sites as an assumption
			cur.Unverified = true
			cur.UnverifiedWhy = rest
		case "dispatch":
			f := strings.Fields(rest)
			if len(f) != 2 {
				return perr(fmt.Errorf("expected: dispatch Iface.Method implKey"))
			}
			cs.dispatch[f[0]] = f[1]
		case "atomic":
			cur.Atomic = true
		case "inline":
			cur.Inline = true
		case "opaque":
			cur.Opaque = true
		case "pure":
			cur.Pure = true
		case "fresh":
			cur.Fresh = true
		case "not-threadsafe":
			cur.NotThreadSafe = true
		case "goroutine":
			cur.Goroutine = true
		case "may-panic":
			cur.mayPanic = true
		case "must-recover":
			cur.Recover = true
		case "loop-free":
			cur.LoopFree = true
		case "event":
			if cur != nil {
				cur.Event = rest
			}
		case "modifies":
			for _, part := range splitTop(rest, ',') {
				e, err := ParseExpr(strings.TrimSpace(part))
				if err != nil {
					return perr(err)
				}
				cur.Modifies = append(cur.Modifies, e)
			}
		case "trace":
			tr, err := parseTrace(rest)
			if err != nil {
				return perr(err)
			}
			tr.Props, tr.Name, tr.File, tr.Line, tr.Src = props, label, path, lineNo, rest
			cur.Traces = append(cur.Traces, tr)
		case "ghost-at-unlock", "ghost-at-exit":
			for _, part := range splitTop(rest, ';') {
				part = strings.TrimSpace(part)
				if part == "" {
					continue
				}
				j := strings.Index(part, ":=")
				if j < 0 {
					return perr(fmt.Errorf("expected target := value"))
				}
				te, err := ParseExpr(strings.TrimSpace(part[:j]))
				if err != nil {
					return perr(err)
				}
				ve, err := ParseExpr(strings.TrimSpace(part[j+2:]))
				if err != nil {
					return perr(err)
				}
				ga := GhostAssign{Target: te, Value: ve, Src: part}
				if kw == "ghost-at-unlock" {
					cur.GhostAtUnlock = append(cur.GhostAtUnlock, ga)
				} else {
					cur.GhostAtExit = append(cur.GhostAtExit, ga)
				}
			}
		case "pred":
			// pred name(a T, b U) := body
			j := strings.Index(rest, ":=")
			if j < 0 {
				return perr(fmt.Errorf("expected pred name(params) := body"))
			}
			head := strings.TrimSpace(rest[:j])
			lp := strings.Index(head, "(")
			if lp < 0 || !strings.HasSuffix(head, ")") {
				return perr(fmt.Errorf("bad pred head"))
			}
			pd := &PredDef{Name: head[:lp], Src: rest}
			for _, p := range splitTop(head[lp+1:len(head)-1], ',') {
				f := strings.Fields(p)
				if len(f) == 2 {
					pd.Params = append(pd.Params, Param{f[0], f[1]})
				} else if len(f) == 1 {
					pd.Params = append(pd.Params, Param{f[0], ""})
				}
			}
			e, err := ParseExpr(strings.TrimSpace(rest[j+2:]))
			if err != nil {
				return perr(err)
			}
			pd.Body = e
			cs.preds[pd.Name] = pd
		case "guarded":
			// guarded T.{a,b,c} by T.mu   |  guarded T.{a} class immutable
			g, err := parseGuard(rest, pkg)
			if err != nil {
				return perr(err)
			}
			cs.guards = append(cs.guards, g)
		case "locklevel":
			// locklevel T.mu = 10
			f := strings.Split(rest, "=")
			if len(f) != 2 {
				return perr(fmt.Errorf("expected locklevel T.mu = N"))
			}
			n, err := strconv.Atoi(strings.TrimSpace(f[1]))
			if err != nil {
				return perr(err)
			}
			cs.lockLevels[pkg+"."+strings.TrimSpace(f[0])] = n
		case "lockinv":
			// lockinv T.mu(self) := body
			j := strings.Index(rest, ":=")
			if j < 0 {
				return perr(fmt.Errorf("expected lockinv T.mu(self) := body"))
			}
			head := strings.TrimSpace(rest[:j])
			lp := strings.Index(head, "(")
			tm := head[:lp]
			self := strings.TrimSuffix(head[lp+1:], ")")
			k := strings.LastIndex(tm, ".")
			e, err := ParseExpr(strings.TrimSpace(rest[j+2:]))
			if err != nil {
				return perr(err)
			}
			cs.lockInvs[pkg+"."+tm] = &LockInv{Struct: pkg + "." + tm[:k], Mutex: tm[k+1:], Self: self, Body: e, Src: rest, Props: props}
		case "ghost":
			// ghost field T.f type
			f := strings.Fields(rest)
			if len(f) < 3 || f[0] != "field" {
				return perr(fmt.Errorf("expected ghost field T.f type"))
			}
			k := strings.LastIndex(f[1], ".")
			q := pkg + "." + f[1]
			if strings.Count(f[1], ".") >= 2 {
				q = f[1] // already package-qualified (ghost state of a dependency type)
			}
			k = strings.LastIndex(q, ".")
			cs.ghosts[q] = &GhostField{Struct: q[:k], Name: q[k+1:], Type: strings.Join(f[2:], " ")}
		case "require-obligation":
			// require-obligation[C07] name
			for _, p := range props {
				cs.required[p] = append(cs.required[p], rest)
			}
		case "inline-extern":
			cs.inlineExtern = append(cs.inlineExtern, rest)
		case "frozen":
			// frozen[C08] crypto/rand.Reader reason...
			f := strings.Fields(rest)
			if len(f) < 1 {
				return perr(fmt.Errorf("expected: frozen[Cxx] pkgpath.Name reason"))
			}
			cs.frozen = append(cs.frozen, frozenDecl{Props: props, Global: f[0], Note: strings.Join(f[1:], " ")})
		case "clock":
			cur.Clock = true
		case "tainted":
			cs.tainted = append(cs.tainted, pkg+"|"+rest)
		case "sink":
			cs.sinks = append(cs.sinks, rest)
		case "declassify":
			cs.declass = append(cs.declass, rest)
		default:
			return perr(fmt.Errorf("unknown contract keyword %q", kw))
		}
	}
	return nil
}

func splitTop(s string, sep byte) []string {
	var out []string
	depth := 0
	start := 0
	inStr := false
	for i := 0; i < len(s); i++ {
		ch := s[i]
		if inStr {
			if ch == '\\' {
				i++
			} else if ch == '"' {
				inStr = false
			}
			continue
		}
		switch ch {
		case '"':
			inStr = true
		case '(', '[', '{':
			depth++
		case ')', ']', '}':
			depth--
		default:
			if ch == sep && depth == 0 {
				out = append(out, s[start:i])
				start = i + 1
			}
		}
	}
	out = append(out, s[start:])
	return out
}

func parseGuard(rest, pkg string) (*GuardDecl, error) {
	// T.{a,b} by T.mu [note...]   |  T.{a,b} class <class> [note...]
	lb := strings.Index(rest, "{")
	rb := strings.Index(rest, "}")
	if lb < 0 || rb < lb {
		return nil, fmt.Errorf("expected T.{fields}")
	}
	g := &GuardDecl{Struct: pkg + "." + strings.TrimSuffix(strings.TrimSpace(rest[:lb]), ".")}
	for _, f := range strings.Split(rest[lb+1:rb], ",") {
		g.Fields = append(g.Fields, strings.TrimSpace(f))
	}
	tail := strings.Fields(rest[rb+1:])
	if len(tail) >= 2 && tail[0] == "by" {
		g.Class = "mutex"
		k := strings.LastIndex(tail[1], ".")
		g.Mutex = tail[1][k+1:]
		g.Note = strings.Join(tail[2:], " ")
	} else if len(tail) >= 2 && tail[0] == "under" {
		// T.{f} under U.mu : the field belongs to objects owned by a U; it is accessed only while the
		// mutex of (some) U is held: exclusively for writes
		g.Class = "under"
		g.Mutex = pkg + "." + tail[1]
		g.Note = strings.Join(tail[2:], " ")
	} else if len(tail) >= 2 && tail[0] == "class" {
		g.Class = tail[1]
		g.Note = strings.Join(tail[2:], " ")
	} else {
		return nil, fmt.Errorf("expected 'by T.mu' or 'class C'")
	}
	return g, nil
}

func parseTrace(rest string) (*TraceRule, error) {
	// trace [loop K] exactly N E [when COND]
	// trace [loop K] atmost N E
	// trace [loop K] atleast N E [when COND]
	// trace [loop K] never E [when COND]
	// trace [loop K] before A B        (every B is preceded by an A)
	// trace [loop K] notafter A B      (no A after a B)
	// trace [loop K] last E            (E is the last event of its class ...)
	tr := &TraceRule{}
	f := strings.Fields(rest)
	if len(f) >= 2 && f[0] == "loop" {
		n, err := strconv.Atoi(f[1])
		if err != nil {
			return nil, err
		}
		tr.Loop = n
		f = f[2:]
	}
	if len(f) == 0 {
		return nil, fmt.Errorf("empty trace rule")
	}
	tr.Kind = f[0]
	f = f[1:]
	takeCond := func(f []string) ([]string, error) {
		for i, w := range f {
			if w == "when" {
				e, err := ParseExpr(strings.Join(f[i+1:], " "))
				if err != nil {
					return nil, err
				}
				tr.Cond = e
				return f[:i], nil
			}
		}
		return f, nil
	}
	var err error
	switch tr.Kind {
	case "exactly", "atmost", "atleast":
		if len(f) < 2 {
			return nil, fmt.Errorf("expected N EVENT")
		}
		tr.N, err = strconv.Atoi(f[0])
		if err != nil {
			return nil, err
		}
		f, err = takeCond(f[1:])
		if err != nil {
			return nil, err
		}
		for i, w := range f {
			if w == "where" {
				e, err := ParseExpr(strings.Join(f[i+1:], " "))
				if err != nil {
					return nil, err
				}
				tr.Where = e
				f = f[:i]
				break
			}
		}
		tr.A = strings.Join(f, " ")
	case "never":
		f, err = takeCond(f)
		if err != nil {
			return nil, err
		}
		tr.A = strings.Join(f, " ")
	case "holds":
		// holds EXPR : a condition over the final state of the path (may use evcount / evres)
		e, err := ParseExpr(strings.Join(f, " "))
		if err != nil {
			return nil, err
		}
		tr.Cond = e
	case "each":
		// each EVENT satisfies EXPR   ($recv, $arg0.., $res0.. denote the event's operands)
		idx := -1
		for i, w := range f {
			if w == "satisfies" {
				idx = i
			}
		}
		if idx != 1 {
			return nil, fmt.Errorf("expected: each EVENT satisfies EXPR")
		}
		tr.A = f[0]
		if lb := strings.Index(tr.A, "["); lb > 0 && strings.HasSuffix(tr.A, "]") {
			on, err := ParseExpr(tr.A[lb+1 : len(tr.A)-1])
			if err != nil {
				return nil, err
			}
			tr.On = on
			tr.A = tr.A[:lb]
		}
		e, err := ParseExpr(strings.Join(f[2:], " "))
		if err != nil {
			return nil, err
		}
		tr.Cond = e
	case "before", "notafter":
		f, err = takeCond(f)
		if err != nil {
			return nil, err
		}
		if len(f) != 2 {
			return nil, fmt.Errorf("expected two event patterns")
		}
		tr.A, tr.B = f[0], f[1]
	default:
		return nil, fmt.Errorf("unknown trace rule %q", tr.Kind)
	}
	return tr, nil
}

// LoadAll loads the repo contract files and the assumed contracts.
func (cs *Contracts) LoadAll(repo, verif string) error {
	matches, _ := filepath.Glob(filepath.Join(repo, "*", "verif_contracts.go"))
	m2, _ := filepath.Glob(filepath.Join(repo, "*", "*", "verif_contracts.go"))
	matches = append(matches, m2...)
	for _, p := range matches {
		if strings.Contains(p, "/caddy/") {
			continue
		}
		// package short name = from the "package x" clause
		data, err := os.ReadFile(p)
		if err != nil {
			return err
		}
		pkg := ""
		for _, l := range strings.Split(string(data), "\n") {
			if strings.HasPrefix(l, "package ") {
				pkg = strings.TrimSpace(strings.TrimPrefix(l, "package "))
				break
			}
		}
		if pkg == "main" {
			pkg = "main"
		}
		if err := cs.LoadContractFile(p, pkg, true); err != nil {
			return err
		}
	}
	// a property tag on any clause of a function makes the function part of that property's check
	for _, fc := range cs.funcs {
		have := map[string]bool{}
		for _, p := range fc.Props {
			have[p] = true
		}
		add := func(ps []string) {
			for _, p := range ps {
				if !have[p] {
					have[p] = true
					fc.Props = append(fc.Props, p)
				}
			}
		}
		for _, cl := range fc.Requires {
			add(cl.Props)
		}
		for _, cl := range fc.Ensures {
			add(cl.Props)
		}
		for _, cls := range fc.LoopInv {
			for _, cl := range cls {
				add(cl.Props)
			}
		}
		for _, tr := range fc.Traces {
			add(tr.Props)
		}
		for _, cl := range fc.Lemmas {
			add(cl.Props)
		}
	}
	am, _ := filepath.Glob(filepath.Join(verif, "contracts", "assumed", "*.contract"))
	for _, p := range am {
		if err := cs.LoadContractFile(p, "", false); err != nil {
			return err
		}
	}
	// contracts of small dependency functions whose SSA (module cache, pinned version) is verified
	// like repo code: not assumptions
	before := map[string]bool{}
	for k := range cs.funcs {
		before[k] = true
	}
	vm, _ := filepath.Glob(filepath.Join(verif, "contracts", "verified", "*.contract"))
	for _, p := range vm {
		if err := cs.LoadContractFile(p, "", false); err != nil {
			return err
		}
	}
	for k, fc := range cs.funcs {
		if !before[k] {
			fc.Assumed = false
			fc.DepVerified = true
		}
	}
	return nil
}
