package main

import (
	"fmt"
	"go/types"
	"regexp"
	"strings"

	"golang.org/x/tools/go/ssa"
)

// Value is the engine-side representation of a Go value on one path.
type Value interface{ isValue() }

// Prov records where a pointer value came from, so that loads and stores
// through it go to the precise per-field / per-element heap.
type Prov struct {
	Kind   int // 1 field, 2 element
	Base   Term
	Struct types.Type // named or struct type owning the field (Kind 1)
	Field  int
	ElemT  types.Type // Kind 2
	Idx    Term
}

type Sc struct { // scalar: ints, bools, bit-vectors, strings, refs, abstract types
	T    Term
	Prov *Prov
}
type Sl struct{ Arr, Off, Len, Cap Term } // slice header
type If struct{ Typ, Val Term }           // interface: dynamic type code (0 = nil) and payload ref
type St struct {                          // struct value
	Typ types.Type
	F   []Value
}
type Tu struct{ E []Value } // tuple
type Ar struct {            // array value
	Elems Term // (Array Int sigma) for scalar elements
	N     int64
	ElemT types.Type
}

func (Sc) isValue() {}
func (Sl) isValue() {}
func (If) isValue() {}
func (St) isValue() {}
func (Tu) isValue() {}
func (Ar) isValue() {}

// abstractSorts: named struct types treated as opaque scalars.
var abstractSorts = map[string]Sort{
	"time.Time":           SInt, // nanoseconds on the ghost clock; 0 is the zero Time
	"net/netip.Addr":      SInt,
	"net/netip.AddrPort":  SInt,
	"sync.Mutex":          SInt,
	"sync.RWMutex":        SInt,
	"sync.Once":           SInt,
	"sync.WaitGroup":      SInt,
	"sync/atomic.Int32":   SInt,
	"sync/atomic.Int64":   SInt,
	"sync/atomic.Bool":    SInt,
	"sync/atomic.Uint32":  SInt,
	"sync/atomic.Uint64":  SInt,
	"log/slog.Attr":       SInt,
	"log/slog.Value":      SInt,
	"log/slog.Record":     SInt,
	"reflect.Value":       SInt,
	"strings.Builder":     SInt,
	"bytes.Buffer":        SInt,
	"net.Dialer":          SInt,
	"net.ListenConfig":    SInt,
	"net.Resolver":        SInt,
	"os/signal.Signal":    SInt,
}

func typeKey(t types.Type) string {
	t = types.Unalias(t)
	if b, ok := t.(*types.Basic); ok {
		switch b.Kind() {
		case types.Uint8:
			return "uint8"
		case types.Int32:
			return "int32"
		}
	}
	s := types.TypeString(t, func(p *types.Package) string { return p.Path() })
	// byte and rune print as aliases inside composite types
	if strings.Contains(s, "byte") || strings.Contains(s, "rune") {
		s = byteRe.ReplaceAllString(s, "uint8")
		s = runeRe.ReplaceAllString(s, "int32")
	}
	return s
}

var byteRe = regexp.MustCompile(`\bbyte\b`)
var runeRe = regexp.MustCompile(`\brune\b`)

func abstractSort(t types.Type) (Sort, bool) {
	if n, ok := t.(*types.Named); ok {
		s, ok := abstractSorts[typeKey(n)]
		return s, ok
	}
	return "", false
}

// scalarSort returns the SMT sort of a Go type whose values are scalars, or "".
func scalarSort(t types.Type) Sort {
	if s, ok := abstractSort(t); ok {
		return s
	}
	switch u := t.Underlying().(type) {
	case *types.Basic:
		switch u.Kind() {
		case types.Bool, types.UntypedBool:
			return SBool
		case types.Uint8:
			return SBV8
		case types.Uint16:
			return SBV16
		case types.Uint32:
			return SBV32
		case types.Int, types.Int8, types.Int16, types.Int32, types.Int64, types.Uint, types.Uint64, types.Uintptr, types.UntypedInt, types.UntypedRune:
			return SInt
		case types.Float32, types.Float64, types.UntypedFloat, types.Complex128, types.Complex64:
			return SFlt
		case types.String, types.UntypedString:
			return SStr
		case types.UnsafePointer:
			return SInt
		case types.UntypedNil:
			return SInt
		}
	case *types.Pointer, *types.Map, *types.Chan, *types.Signature:
		return SInt
	}
	return ""
}

// intRange returns the inclusive range of an Int-sorted integer type.
func intRange(t types.Type) (lo, hi string, ok bool) {
	b, isb := t.Underlying().(*types.Basic)
	if !isb {
		return "", "", false
	}
	switch b.Kind() {
	case types.Int, types.Int64:
		return "-9223372036854775808", "9223372036854775807", true
	case types.Int32:
		return "-2147483648", "2147483647", true
	case types.Int16:
		return "-32768", "32767", true
	case types.Int8:
		return "-128", "127", true
	case types.Uint, types.Uint64, types.Uintptr:
		return "0", "18446744073709551615", true
	}
	return "", "", false
}

func isUnsignedInt(t types.Type) bool {
	b, ok := t.Underlying().(*types.Basic)
	return ok && (b.Kind() == types.Uint || b.Kind() == types.Uint64 || b.Kind() == types.Uintptr)
}

func isStructType(t types.Type) (*types.Struct, bool) {
	if _, ok := abstractSort(t); ok {
		return nil, false
	}
	s, ok := t.Underlying().(*types.Struct)
	return s, ok
}

// comps flattens a type into heap components: suffix and sort. Struct and
// array types are not flattened here (they are addressed through sub-objects).
type comp struct {
	Suffix string
	Sort   Sort
}

func compsOf(t types.Type) []comp {
	if s := scalarSort(t); s != "" {
		return []comp{{"", s}}
	}
	switch t.Underlying().(type) {
	case *types.Slice:
		return []comp{{"#arr", SInt}, {"#off", SInt}, {"#len", SInt}, {"#cap", SInt}}
	case *types.Interface:
		return []comp{{"#typ", SInt}, {"#val", SInt}}
	}
	return nil
}

func flatten(v Value) []Term {
	switch x := v.(type) {
	case Sc:
		return []Term{x.T}
	case Sl:
		return []Term{x.Arr, x.Off, x.Len, x.Cap}
	case If:
		return []Term{x.Typ, x.Val}
	}
	panic(fmt.Sprintf("flatten: unsupported %T", v))
}

func unflatten(t types.Type, ts []Term) Value {
	if scalarSort(t) != "" {
		return Sc{T: ts[0]}
	}
	switch t.Underlying().(type) {
	case *types.Slice:
		return Sl{ts[0], ts[1], ts[2], ts[3]}
	case *types.Interface:
		return If{ts[0], ts[1]}
	}
	panic("unflatten: " + t.String())
}

// zeroTerm returns the zero value of a sort.
func zeroTerm(s Sort, d *Decls) Term {
	switch {
	case s == SInt:
		return IntLit(0)
	case s == SBool:
		return False
	case s.IsBV():
		return BVLit(0, s.BVWidth())
	case s == SStr:
		return strLit(d, "")
	case s == SFlt:
		return d.Const("flt!zero", SFlt)
	}
	panic("zeroTerm: " + string(s))
}

var strLits = map[string]int{}
var strLitOrder []string

// strLit returns the constant for a string literal; literals are pairwise
// distinct and have known lengths (axioms are emitted by strAxioms).
func strLit(d *Decls, s string) Term {
	id, ok := strLits[s]
	if !ok {
		id = len(strLits)
		strLits[s] = id
		strLitOrder = append(strLitOrder, s)
	}
	name := fmt.Sprintf("str!%d", id)
	t := d.Const(name, SStr)
	d.Fun("strlen", []Sort{SStr}, SInt)
	d.Axiom(fmt.Sprintf("(= (strlen %s) %d)", t.S, len(s)))
	d.Fun("strid", []Sort{SStr}, SInt)
	d.Axiom(fmt.Sprintf("(= (strid %s) %d)", t.S, id)) // makes literals pairwise distinct
	if len(s) <= 8 {
		d.Fun("strbyte", []Sort{SStr, SInt}, SBV8)
		for i := 0; i < len(s); i++ {
			d.Axiom(fmt.Sprintf("(= (strbyte %s %d) (_ bv%d 8))", t.S, i, s[i]))
		}
	}
	return t
}

func StrLen(d *Decls, s Term) Term {
	return d.Apply("strlen", []Term{s}, SInt)
}

// type codes for interface dynamic types
var typeCodes = map[string]int{}
var typeCodeNames []string
var typeByCode = map[int]types.Type{}

func typeCode(t types.Type) int {
	k := typeKey(t)
	if c, ok := typeCodes[k]; ok {
		return c
	}
	c := len(typeCodes) + 1
	typeCodes[k] = c
	typeCodeNames = append(typeCodeNames, k)
	typeByCode[c] = t
	return c
}

func fnKey(fn *ssa.Function) string {
	// package-short-qualified, parent-qualified name, e.g. service.(*ReplayCache).Add, service.timedCopy$1
	if fn == nil {
		return "<nil>"
	}
	return qualFnName(fn)
}

func pkgShort(fn *ssa.Function) string {
	if fn.Pkg == nil {
		if fn.Parent() != nil {
			return pkgShort(fn.Parent())
		}
		return "?"
	}
	p := fn.Pkg.Pkg.Path()
	if i := strings.LastIndex(p, "/"); i >= 0 {
		p = p[i+1:]
	}
	return p
}
