package main

import (
	"fmt"
	"go/types"
	"strings"

	"golang.org/x/tools/go/ssa"
)

// ---------- loops ----------

type loopInfoT struct {
	isHeader map[*ssa.BasicBlock]bool
	backEdge map[[2]*ssa.BasicBlock]bool
	ordinal  map[*ssa.BasicBlock]int // 1-based, in block order
	body     map[*ssa.BasicBlock]map[*ssa.BasicBlock]bool
}

func (e *Engine) loopInfo(fn *ssa.Function) *loopInfoT {
	if li, ok := e.loops[fn]; ok {
		return li
	}
	li := &loopInfoT{isHeader: map[*ssa.BasicBlock]bool{}, backEdge: map[[2]*ssa.BasicBlock]bool{}, ordinal: map[*ssa.BasicBlock]int{}, body: map[*ssa.BasicBlock]map[*ssa.BasicBlock]bool{}}
	for _, b := range fn.Blocks {
		for _, p := range b.Preds {
			if b.Dominates(p) {
				li.isHeader[b] = true
				li.backEdge[[2]*ssa.BasicBlock{p, b}] = true
			}
		}
	}
	n := 0
	for _, b := range fn.Blocks {
		if li.isHeader[b] {
			n++
			li.ordinal[b] = n
			// natural loop body
			body := map[*ssa.BasicBlock]bool{b: true}
			var stack []*ssa.BasicBlock
			for _, p := range b.Preds {
				if li.backEdge[[2]*ssa.BasicBlock{p, b}] && !body[p] {
					body[p] = true
					stack = append(stack, p)
				}
			}
			for len(stack) > 0 {
				x := stack[len(stack)-1]
				stack = stack[:len(stack)-1]
				for _, p := range x.Preds {
					if !body[p] {
						body[p] = true
						stack = append(stack, p)
					}
				}
			}
			li.body[b] = body
		}
	}
	e.loops[fn] = li
	return li
}

func (c *Ctx) loopClauses(fn *ssa.Function, header *ssa.BasicBlock) []*Clause {
	fc := c.eng.contracts.funcs[qualFnName(fn)]
	if fc == nil {
		return nil
	}
	ord := c.eng.loopInfo(fn).ordinal[header]
	return fc.LoopInv[ord]
}

func (c *Ctx) loopEnv(s *State) *Env {
	fr := s.top()
	env := &Env{c: c, s: s, vars: map[string]tv{}, fn: fr.fn, frame: fr, old: fr.entry}
	root := fr.fn
	for root.Parent() != nil {
		root = root.Parent()
	}
	if root.Pkg != nil {
		env.pkg = root.Pkg.Pkg
	}
	// phis of all blocks by their source names are in fr.locals already
	return env
}

// autoInvariants derives candidate invariants for induction variables; they are
// *checked* like declared ones (on entry and on every back edge).
func (c *Ctx) autoInvariants(s *State, header *ssa.BasicBlock) []Term {
	var out []Term
	fr := s.top()
	li := c.eng.loopInfo(fr.fn)
	for _, in := range header.Instrs {
		phi, ok := in.(*ssa.Phi)
		if !ok {
			break
		}
		if scalarSort(phi.Type()) != SInt {
			continue
		}
		// entry value constant k, back-edge value phi + positive const  => phi >= k
		var entryConst *int64
		monotone := true
		for i, p := range header.Preds {
			e := phi.Edges[i]
			if li.backEdge[[2]*ssa.BasicBlock{p, header}] {
				b, ok := e.(*ssa.BinOp)
				if !ok || b.Op.String() != "+" || b.X != ssa.Value(phi) {
					monotone = false
					break
				}
				k, ok := b.Y.(*ssa.Const)
				if !ok || k.Value == nil || k.Int64() <= 0 {
					monotone = false
					break
				}
			} else {
				k, ok := e.(*ssa.Const)
				if !ok || k.Value == nil {
					monotone = false
					break
				}
				v := k.Int64()
				entryConst = &v
			}
		}
		if monotone && entryConst != nil {
			cur, ok := fr.vals[phi].(Sc)
			if ok {
				out = append(out, Ge(cur.T, IntLit(*entryConst)))
				// upper bound from the loop test `phi < B` or `phi+1 < B` with step 1 and loop-invariant B
				if ub, ok := c.autoUpper(s, header, phi, cur.T); ok {
					out = append(out, ub)
				}
			}
		}
	}
	return out
}

// autoUpper: for `for phi := k; phi < B; phi++` (or the rangeindex form phi+1 < B) returns phi <= B
// (resp. phi < B) when B is defined outside the loop.
func (c *Ctx) autoUpper(s *State, header *ssa.BasicBlock, phi *ssa.Phi, cur Term) (Term, bool) {
	fr := s.top()
	li := c.eng.loopInfo(fr.fn)
	body := li.body[header]
	if len(header.Instrs) == 0 {
		return Term{}, false
	}
	ifi, ok := header.Instrs[len(header.Instrs)-1].(*ssa.If)
	if !ok {
		return Term{}, false
	}
	cmp, ok := ifi.Cond.(*ssa.BinOp)
	if !ok || cmp.Op.String() != "<" {
		return Term{}, false
	}
	// step must be exactly 1
	for i, p := range header.Preds {
		if li.backEdge[[2]*ssa.BasicBlock{p, header}] {
			b, ok := phi.Edges[i].(*ssa.BinOp)
			if !ok {
				return Term{}, false
			}
			k, ok := b.Y.(*ssa.Const)
			if !ok || k.Value == nil || k.Int64() != 1 {
				return Term{}, false
			}
		}
	}
	// bound defined outside the loop body
	if bi, ok := cmp.Y.(ssa.Instruction); ok && body[bi.Block()] {
		return Term{}, false
	}
	bv, ok := fr.vals[cmp.Y].(Sc)
	if !ok {
		if k, isC := cmp.Y.(*ssa.Const); isC && k.Value != nil {
			bv = Sc{T: IntLit(k.Int64())}
		} else {
			return Term{}, false
		}
	}
	if bv.T.Sort != SInt {
		return Term{}, false
	}
	if cmp.X == ssa.Value(phi) {
		return Le(cur, bv.T), true
	}
	if inc, ok := cmp.X.(*ssa.BinOp); ok && inc.Op.String() == "+" && inc.X == ssa.Value(phi) {
		if k, ok := inc.Y.(*ssa.Const); ok && k.Value != nil && k.Int64() == 1 {
			return Lt(cur, bv.T), true
		}
	}
	return Term{}, false
}

func (c *Ctx) checkLoopInv(s *State, header *ssa.BasicBlock, when string) {
	fr := s.top()
	ord := c.eng.loopInfo(fr.fn).ordinal[header]
	pos := "?"
	if len(header.Instrs) > 0 {
		pos = posOf(c.eng.prog, header.Instrs[len(header.Instrs)-1])
	}
	for i, t := range c.autoInvariants(s, header) {
		name := fmt.Sprintf("%s/loop%d:auto%d:%s", fnKey(fr.fn), c.eng.loopLabel(fr.fn, ord), i+1, when)
		c.oblige(s, "auto-invariant", name, t, pos, "derived induction-variable bound (candidate, checked)", c.props)
	}
	cls := c.loopClauses(fr.fn, header)
	if len(cls) == 0 {
		return
	}
	env := c.loopEnv(s)
	for i, cl := range cls {
		g := env.evalBool(cl.Expr)
		for _, e := range env.errs {
			c.unsupported(fmt.Sprintf("loop invariant of %s: %s (in %q)", fnKey(fr.fn), e, cl.Src))
		}
		env.errs = nil
		label := cl.Name
		if label == "" {
			label = fmt.Sprint(i + 1)
		}
		name := fmt.Sprintf("%s/loop%d:inv[%s]:%s", fnKey(fr.fn), c.eng.loopLabel(fr.fn, ord), label, when)
		props := cl.Props
		if len(props) == 0 {
			if fc := c.eng.contracts.funcs[qualFnName(fr.fn)]; fc != nil {
				props = fc.Props
			}
		}
		c.oblige(s, "invariant", name, g, pos, "loop invariant "+when+": "+cl.Src, props)
	}
}

func (c *Ctx) assumeLoopInv(s *State, header *ssa.BasicBlock) {
	for _, t := range c.autoInvariants(s, header) {
		s.assume(t)
	}
	fr := s.top()
	cls := c.loopClauses(fr.fn, header)
	if len(cls) == 0 {
		return
	}
	env := c.loopEnv(s)
	for _, cl := range cls {
		g := env.evalBool(cl.Expr)
		env.errs = nil
		s.assume(g)
	}
}

// havocLoop forgets everything the loop body may change: header phis and the
// heaps written by the body (found by a scout execution of the body).
func (c *Ctx) havocLoop(s *State, header *ssa.BasicBlock) {
	fr := s.top()
	for _, in := range header.Instrs {
		phi, ok := in.(*ssa.Phi)
		if !ok {
			break
		}
		nv := c.freshValue(s, phi.Type(), "phi|"+phi.Comment)
		fr.vals[phi] = nv
		if phi.Comment != "" {
			fr.locals[phi.Comment] = nv
		}
	}
	m := c.eng.loopMods(c, s, header)
	for _, h := range m.Whole {
		c.havocHeap(s, h)
	}
	for _, a := range m.At {
		c.havocAt(s, a.Heap, a.Base)
	}
	// a defer statement inside the loop body may have been executed by earlier iterations: its
	// call runs at function exit with operands we do not know
	li := c.eng.loopInfo(fr.fn)
	for blk := range li.body[header] {
		for _, in := range blk.Instrs {
			if d, ok := in.(*ssa.Defer); ok {
				dd := deferred{call: &d.Call, pos: posOf(c.eng.prog, d)}
				if d.Call.IsInvoke() {
					dd.fnVal = c.freshValue(s, d.Call.Value.Type(), "loopdefer.recv")
				} else if _, isB := d.Call.Value.(*ssa.Builtin); !isB {
					if _, isF := d.Call.Value.(*ssa.Function); !isF {
						dd.fnVal = c.freshValue(s, d.Call.Value.Type(), "loopdefer.fn")
					}
				}
				for _, a := range d.Call.Args {
					dd.args = append(dd.args, c.freshValue(s, a.Type(), "loopdefer.arg"))
				}
				fr.defers = append(fr.defers, dd)
			}
		}
	}
	// ghost visited-sets of map ranges iterated in this loop
	for r := range fr.rangeVisited {
		fr.rangeVisited[r] = c.freshConst("visited", fr.rangeVisited[r].Sort)
	}
	// locals holding addresses keep their value; their cells are heaps (handled above)
}

// ---------- maps ----------

func mapHeapNames(mt *types.Map) (has, ln string) {
	k := typeKey(mt)
	return "MapHas|" + k, "MapLen|" + k
}

// mapKeyTerm encodes a map key as a single term.
func (c *Ctx) mapKeyTerm(s *State, k Value, kt types.Type) Term {
	switch x := k.(type) {
	case Sc:
		return x.T
	case If:
		t := c.d.Apply("key|iface", []Term{x.Typ, x.Val}, SInt)
		return t
	case St:
		var parts []Term
		var rec func(v Value)
		rec = func(v Value) {
			switch y := v.(type) {
			case Sc:
				parts = append(parts, y.T)
			case If:
				parts = append(parts, y.Typ, y.Val)
			case St:
				for _, f := range y.F {
					rec(f)
				}
			}
		}
		rec(x)
		name := "key|" + typeKey(kt)
		t := c.d.Apply(name, parts, SInt)
		// injectivity instances via projections
		for i, p := range parts {
			proj := c.d.Fun(fmt.Sprintf("%s#%d", name, i), []Sort{SInt}, p.Sort)
			s.assume(Term{fmt.Sprintf("(= (%s %s) %s)", proj, t.S, p.S), SBool})
		}
		return t
	}
	c.unsupported(fmt.Sprintf("map key of kind %T", k))
	return c.freshConst("key", SInt)
}

func mapKeySort(kt types.Type) Sort {
	if s := scalarSort(kt); s != "" {
		return s
	}
	return SInt
}

func (c *Ctx) initMap(s *State, r Term, mt *types.Map) {
	hn, ln := mapHeapNames(mt)
	ks := mapKeySort(mt.Key())
	h := c.getHeap(s, hn, ArrSort(SInt, ArrSort(ks, SBool)))
	c.setHeapAt(s, hn, Store(h, r, Term{fmt.Sprintf("((as const %s) false)", ArrSort(ks, SBool)), ArrSort(ks, SBool)}), r)
	l := c.getHeap(s, ln, ArrSort(SInt, SInt))
	c.setHeapAt(s, ln, Store(l, r, IntLit(0)), r)
}

func (c *Ctx) mapHas(s *State, m Term, mt *types.Map, k Value) Term {
	hn, _ := mapHeapNames(mt)
	ks := mapKeySort(mt.Key())
	h := c.getHeap(s, hn, ArrSort(SInt, ArrSort(ks, SBool)))
	return And(Neq(m, IntLit(0)), Select(Select(h, m), c.mapKeyTerm(s, k, mt.Key())))
}

func (c *Ctx) mapLen(s *State, m Term, mt *types.Map) Term {
	_, ln := mapHeapNames(mt)
	l := c.getHeap(s, ln, ArrSort(SInt, SInt))
	v := Select(l, m)
	s.assume(Ge(v, IntLit(0)))
	return Ite(Eq(m, IntLit(0)), IntLit(0), v)
}

func mapValHeap(mt *types.Map, suffix string) string {
	return "MapVal|" + typeKey(mt) + suffix
}

func (c *Ctx) mapGet(s *State, m Term, mt *types.Map, k Value) (Value, Term) {
	has := c.mapHas(s, m, mt, k)
	kt := c.mapKeyTerm(s, k, mt.Key())
	ks := mapKeySort(mt.Key())
	vt := mt.Elem()
	if st, ok := isStructType(vt); ok && st.NumFields() == 0 {
		return St{Typ: vt}, has
	}
	cs := compsOf(vt)
	if cs == nil {
		c.unsupported("map value type " + vt.String())
		return c.freshValue(s, vt, "mapval"), has
	}
	var ts []Term
	zero := c.zeroValue(vt)
	zs := flatten(zero)
	for i, cp := range cs {
		h := c.getHeap(s, mapValHeap(mt, cp.Suffix), ArrSort(SInt, ArrSort(ks, cp.Sort)))
		ts = append(ts, Ite(has, Select(Select(h, m), kt), zs[i]))
	}
	v := unflatten(vt, ts)
	c.assumeTypeFacts(s, v, vt)
	return v, has
}

func (c *Ctx) execLookup(s *State, x *ssa.Lookup) {
	if mt, ok := x.X.Type().Underlying().(*types.Map); ok {
		m := c.val(s, x.X).(Sc).T
		c.guardMapAccess(s, x, x.X, false)
		v, has := c.mapGet(s, m, mt, c.val(s, x.Index))
		s.seq++
		s.trace = append(s.trace, Event{Name: "maplookup", Args: []Value{Sc{T: m}, Sc{T: c.mapKeyTerm(s, c.val(s, x.Index), mt.Key())}}, Res: Tu{E: []Value{v, Sc{T: has}}},
			ResT: types.NewTuple(types.NewVar(0, nil, "", mt.Elem()), types.NewVar(0, nil, "", types.Typ[types.Bool])), PC: len(s.pc), Pos: posOf(c.eng.prog, x), Seq: s.seq})
		if x.CommaOk {
			c.setVal(s, x, Tu{E: []Value{v, Sc{T: has}}})
		} else {
			c.setVal(s, x, v)
		}
		return
	}
	// string index
	sv := c.val(s, x.X).(Sc).T
	idx := c.toInt(c.val(s, x.Index).(Sc).T)
	name := fmt.Sprintf("%s/safe:index@%s#%d", fnKey(x.Parent()), otag(x), c.ordinal("index", x))
	inb := And(Le(IntLit(0), idx), Lt(idx, StrLen(c.d, sv)))
	c.oblige(s, "safe", name, inb, posOf(c.eng.prog, x), "string index out of range", []string{"C18"})
	s.assume(inb)
	c.setVal(s, x, Sc{T: c.d.Apply("strbyte", []Term{sv, idx}, SBV8)})
}

func (c *Ctx) execMapUpdate(s *State, x *ssa.MapUpdate) {
	mt := x.Map.Type().Underlying().(*types.Map)
	m := c.val(s, x.Map).(Sc).T
	name := fmt.Sprintf("%s/safe:mapwrite#%d", fnKey(x.Parent()), c.ordinal("mapwrite", x))
	c.oblige(s, "safe", name, Neq(m, IntLit(0)), posOf(c.eng.prog, x), "assignment to entry in nil map", []string{"C18"})
	s.assume(Neq(m, IntLit(0)))
	c.guardMapAccess(s, x, x.Map, true)
	k := c.val(s, x.Key)
	kt := c.mapKeyTerm(s, k, mt.Key())
	s.seq++
	s.trace = append(s.trace, Event{Name: "mapupdate", Args: []Value{Sc{T: m}, Sc{T: kt}, c.val(s, x.Value)}, ArgT: []types.Type{x.Map.Type(), types.Typ[types.UnsafePointer], x.Value.Type()}, PC: len(s.pc), Pos: posOf(c.eng.prog, x), Seq: s.seq})
	ks := mapKeySort(mt.Key())
	hn, ln := mapHeapNames(mt)
	h := c.getHeap(s, hn, ArrSort(SInt, ArrSort(ks, SBool)))
	had := Select(Select(h, m), kt)
	l := c.getHeap(s, ln, ArrSort(SInt, SInt))
	c.setHeapAt(s, ln, Store(l, m, Ite(had, Select(l, m), Add(Select(l, m), IntLit(1)))), m)
	c.setHeapAt(s, hn, Store(h, m, Store(Select(h, m), kt, True)), m)
	vt := mt.Elem()
	if st, ok := isStructType(vt); ok && st.NumFields() == 0 {
		return
	}
	cs := compsOf(vt)
	if cs == nil {
		c.unsupported("map value type " + vt.String())
		return
	}
	ts := flatten(c.val(s, x.Value))
	for i, cp := range cs {
		name := mapValHeap(mt, cp.Suffix)
		hv := c.getHeap(s, name, ArrSort(SInt, ArrSort(ks, cp.Sort)))
		c.setHeapAt(s, name, Store(hv, m, Store(Select(hv, m), kt, ts[i])), m)
	}
}

func (c *Ctx) mapDelete(s *State, m Term, mt *types.Map, k Value) {
	kt := c.mapKeyTerm(s, k, mt.Key())
	s.seq++
	s.trace = append(s.trace, Event{Name: "mapdelete", Args: []Value{Sc{T: m}, Sc{T: kt}}, PC: len(s.pc), Seq: s.seq})
	ks := mapKeySort(mt.Key())
	hn, ln := mapHeapNames(mt)
	h := c.getHeap(s, hn, ArrSort(SInt, ArrSort(ks, SBool)))
	had := And(Neq(m, IntLit(0)), Select(Select(h, m), kt))
	l := c.getHeap(s, ln, ArrSort(SInt, SInt))
	c.setHeap(s, ln, Store(l, m, Ite(had, Sub(Select(l, m), IntLit(1)), Select(l, m))))
	c.setHeap(s, hn, Store(h, m, Store(Select(h, m), kt, False)))
}

func (c *Ctx) execRange(s *State, x *ssa.Range) {
	fr := s.top()
	v := c.val(s, x.X)
	fr.rangeMap[x] = v
	if mt, ok := x.X.Type().Underlying().(*types.Map); ok {
		ks := mapKeySort(mt.Key())
		fr.rangeVisited[x] = Term{fmt.Sprintf("((as const %s) false)", ArrSort(ks, SBool)), ArrSort(ks, SBool)}
		c.guardMapAccess(s, x, x.X, false)
	}
	c.setVal(s, x, Sc{T: IntLit(0)})
}

func (c *Ctx) execNext(s *State, x *ssa.Next) {
	fr := s.top()
	rng, ok := x.Iter.(*ssa.Range)
	if !ok || x.IsString {
		c.unsupported("range over string")
		c.setVal(s, x, c.freshValue(s, x.Type(), "next"))
		return
	}
	mt := rng.X.Type().Underlying().(*types.Map)
	m := fr.rangeMap[rng].(Sc).T
	okc := c.freshConst("rangeok", SBool)
	kv := c.freshValue(s, mt.Key(), "rangekey")
	kt := c.mapKeyTerm(s, kv, mt.Key())
	has := c.mapHas(s, m, mt, kv)
	vis := fr.rangeVisited[rng]
	ks := mapKeySort(mt.Key())
	// ok  => key present and not yet visited
	s.assume(Implies(okc, And(has, Not(Select(vis, kt)))))
	// !ok => every present key has been visited
	hn, _ := mapHeapNames(mt)
	h := c.getHeap(s, hn, ArrSort(SInt, ArrSort(ks, SBool)))
	c.fresh++
	qv := fmt.Sprintf("k!%d", c.fresh)
	s.assume(Implies(Not(okc), Term{fmt.Sprintf("(forall ((%s %s)) (=> (select (select %s %s) %s) (select %s %s)))", qv, ks, h.S, m.S, qv, vis.S, qv), SBool}))
	val, _ := c.mapGet(s, m, mt, kv)
	nv := c.freshConst("visited", vis.Sort)
	s.assume(Eq(nv, Ite(okc, Store(vis, kt, True), vis)))
	fr.rangeVisited[rng] = nv
	// expose the current key / visited set to loop invariants
	fr.locals["$key"] = kv
	c.setVal(s, x, Tu{E: []Value{Sc{T: okc}, kv, val}})
}

// ---------- channels ----------

func (c *Ctx) chanClosed(s *State, ch Term) Term {
	h := c.getHeap(s, "ChanClosed", ArrSort(SInt, SBool))
	return Select(h, ch)
}

// blockingUnderLock: a goroutine must not block on a channel while it holds a levelled mutex
// (the level argument for deadlock freedom covers mutexes only).
func (c *Ctx) blockingUnderLock(s *State, in ssa.Instruction, what string) {
	if c.scout > 0 {
		return
	}
	held := ""
	for _, l := range s.locks {
		if l.Level != 0 {
			held = l.Key
		}
	}
	c.structural(held == "", "locklevel", fmt.Sprintf("%s/blocking-under-lock@%s#%d", fnKey(in.Parent()), otag(in), c.ordinal("chan", in)), posOf(c.eng.prog, in),
		"blocking "+what+" while holding "+held, []string{"C13"})
}

func (c *Ctx) execSend(s *State, x *ssa.Send) {
	c.blockingUnderLock(s, x, "channel send")
	ch := c.val(s, x.Chan).(Sc).T
	v := c.val(s, x.X)
	pos := posOf(c.eng.prog, x)
	nm := fmt.Sprintf("%s/safe:send#%d", fnKey(x.Parent()), c.ordinal("chan", x))
	// send on a closed channel panics; a nil channel blocks forever (path ends)
	c.oblige(s, "safe", nm, Or(Eq(ch, IntLit(0)), Not(c.chanClosed(s, ch))), pos, "send on closed channel", []string{"C18"})
	s.assume(And(Neq(ch, IntLit(0)), Not(c.chanClosed(s, ch))))
	s.seq++
	s.trace = append(s.trace, Event{Name: "send", Recv: Sc{T: ch}, Args: []Value{v}, PC: len(s.pc), Pos: pos, Seq: s.seq})
	c.chanInvAssert(s, x, x.Chan, v)
}

func (c *Ctx) execRecv(s *State, x *ssa.UnOp) {
	c.blockingUnderLock(s, x, "channel receive")
	ch := c.val(s, x.X).(Sc).T
	pos := posOf(c.eng.prog, x)
	s.assume(Neq(ch, IntLit(0))) // nil channel blocks forever
	et := x.X.Type().Underlying().(*types.Chan).Elem()
	closed := c.chanClosed(s, ch)
	okc := c.freshConst("recvok", SBool)
	// if the channel is closed (and drained) ok may be false; if it is not closed ok is true
	s.assume(Implies(Not(closed), okc))
	v := c.freshValue(s, et, "recv")
	val := c.iteValue(okc, v, c.zeroValue(et))
	s.seq++
	s.trace = append(s.trace, Event{Name: "recv", Recv: Sc{T: ch}, Res: val, PC: len(s.pc), Pos: pos, Seq: s.seq})
	c.chanInvAssume(s, x, x.X, v, okc)
	if x.CommaOk {
		c.setVal(s, x, Tu{E: []Value{val, Sc{T: okc}}})
	} else {
		c.setVal(s, x, val)
	}
}

// execSelect: may-semantics. Every case whose channel is non-nil is a possible branch.
func (c *Ctx) execSelect(s *State, x *ssa.Select) []*State {
	if x.Blocking {
		c.blockingUnderLock(s, x, "select")
	}
	pos := posOf(c.eng.prog, x)
	type branch struct {
		idx int
	}
	var forks []*State
	n := len(x.States)
	total := n
	if !x.Blocking {
		total = n + 1 // default
	}
	// result tuple: (index int, recvOk bool, r_0 T_0, ... for each recv state)
	mk := func(st *State, chosen int) {
		var recvVals []Value
		recvOk := Value(Sc{T: False})
		for i, cs := range x.States {
			ch := c.val(st, cs.Chan).(Sc).T
			if cs.Dir == types.RecvOnly {
				et := cs.Chan.Type().Underlying().(*types.Chan).Elem()
				if i == chosen {
					st.assume(Neq(ch, IntLit(0)))
					closed := c.chanClosed(st, ch)
					okc := c.freshConst("selrecvok", SBool)
					st.assume(Implies(Not(closed), okc))
					v := c.freshValue(st, et, "selrecv")
					val := c.iteValue(okc, v, c.zeroValue(et))
					recvVals = append(recvVals, val)
					recvOk = Sc{T: okc}
					st.seq++
					st.trace = append(st.trace, Event{Name: "recv", Recv: Sc{T: ch}, Res: val, PC: len(st.pc), Pos: pos, Seq: st.seq})
					c.chanInvAssume(st, x, cs.Chan, v, okc)
				} else {
					recvVals = append(recvVals, c.zeroValue(et))
				}
			} else if i == chosen {
				v := c.val(st, cs.Send)
				nm := fmt.Sprintf("%s/safe:send#%d.%d", fnKey(x.Parent()), c.ordinal("chan", x), i)
				c.oblige(st, "safe", nm, Or(Eq(ch, IntLit(0)), Not(c.chanClosed(st, ch))), pos, "send on closed channel (select)", []string{"C18"})
				st.assume(And(Neq(ch, IntLit(0)), Not(c.chanClosed(st, ch))))
				st.seq++
				st.trace = append(st.trace, Event{Name: "send", Recv: Sc{T: ch}, Args: []Value{v}, PC: len(st.pc), Pos: pos, Seq: st.seq})
				c.chanInvAssert(st, x, cs.Chan, v)
			}
		}
		idx := int64(chosen)
		if chosen == n {
			idx = -1
			// default is taken only when no case is ready; a receive from a closed channel is always ready
			for _, cs := range x.States {
				if cs.Dir == types.RecvOnly {
					ch := c.val(st, cs.Chan).(Sc).T
					st.assume(Or(Eq(ch, IntLit(0)), Not(c.chanClosed(st, ch))))
				}
			}
		}
		res := Tu{E: append([]Value{Sc{T: IntLit(idx)}, recvOk}, recvVals...)}
		st.top().vals[x] = res
	}
	for i := 1; i < total; i++ {
		st := s.clone()
		mk(st, i)
		forks = append(forks, st)
	}
	mk(s, 0)
	return forks
}

// channel invariants: declared per channel-typed struct field or local variable name.
func (c *Ctx) chanInvFor(v ssa.Value) *PredDef {
	name := ""
	switch x := v.(type) {
	case *ssa.UnOp:
		if fa, ok := x.X.(*ssa.FieldAddr); ok {
			pt := fa.X.Type().Underlying().(*types.Pointer).Elem()
			name = "chaninv_" + strings.ReplaceAll(shortTypeKey(pt), ".", "_") + "_" + pt.Underlying().(*types.Struct).Field(fa.Field).Name()
		} else if fv, ok := x.X.(*ssa.FreeVar); ok {
			name = "chaninv_" + fv.Name()
		} else if al, ok := x.X.(*ssa.Alloc); ok {
			name = "chaninv_" + al.Comment
		}
	case *ssa.MakeChan:
		// named by the variable it is assigned to, if any
		for _, r := range *x.Referrers() {
			if d, ok := r.(*ssa.DebugRef); ok && d.Object() != nil {
				name = "chaninv_" + d.Object().Name()
			}
		}
	case *ssa.Parameter:
		name = "chaninv_" + x.Name()
	case *ssa.FreeVar:
		name = "chaninv_" + x.Name()
	}
	if name == "" {
		return nil
	}
	return c.eng.contracts.preds[name]
}

func (c *Ctx) chanInvAssert(s *State, in ssa.Instruction, chv ssa.Value, v Value) {
	pd := c.chanInvFor(chv)
	if pd == nil {
		return
	}
	env := c.loopEnv(s)
	et := chv.Type().Underlying().(*types.Chan).Elem()
	env.vars[pd.Params[0].Name] = tv{v, et}
	g := env.evalBool(pd.Body)
	for _, e := range env.errs {
		c.unsupported("channel invariant " + pd.Name + ": " + e)
	}
	name := fmt.Sprintf("%s/chaninv#%d:%s", fnKey(in.Parent()), c.ordinal("chan", in), pd.Name)
	c.oblige(s, "chaninv", name, g, posOf(c.eng.prog, in), "channel message invariant "+pd.Src, c.props)
}

func (c *Ctx) chanInvAssume(s *State, in ssa.Instruction, chv ssa.Value, v Value, okc Term) {
	pd := c.chanInvFor(chv)
	if pd == nil {
		return
	}
	env := c.loopEnv(s)
	et := chv.Type().Underlying().(*types.Chan).Elem()
	env.vars[pd.Params[0].Name] = tv{v, et}
	g := env.evalBool(pd.Body)
	s.assume(Implies(okc, g))
}

// ---------- locks, once, waitgroup, time ----------

// lockKeyOf identifies the mutex a Lock/Unlock call operates on.
func (c *Ctx) lockKeyOf(s *State, recvArg ssa.Value) (key string, base Term, ok bool) {
	v, isSc := c.val(s, recvArg).(Sc)
	if !isSc {
		return "", Term{}, false
	}
	if v.Prov != nil && v.Prov.Kind == 1 {
		st := v.Prov.Struct.Underlying().(*types.Struct)
		return shortTypeKey(v.Prov.Struct) + "." + st.Field(v.Prov.Field).Name(), v.Prov.Base, true
	}
	// promoted method through embedded mutex: receiver is &x.RWMutex computed as FieldAddr too;
	// otherwise a free-standing mutex identified by its address
	return "mutex@" + typeKey(recvArg.Type()), v.T, true
}

func (c *Ctx) specialCall(s *State, in ssa.Instruction, name string, cc *ssa.CallCommon, recv Value, args []Value, res ssa.Value) bool {
	pos := posOf(c.eng.prog, in)
	switch name {
	case "sync.(*Mutex).Lock", "sync.(*RWMutex).Lock", "sync.(*RWMutex).RLock":
		key, base, ok := c.lockKeyOf(s, cc.Args[0])
		if !ok {
			return false
		}
		write := name != "sync.(*RWMutex).RLock"
		c.doLock(s, in, key, base, write, pos)
		return true
	case "sync.(*Mutex).Unlock", "sync.(*RWMutex).Unlock", "sync.(*RWMutex).RUnlock":
		key, base, ok := c.lockKeyOf(s, cc.Args[0])
		if !ok {
			return false
		}
		c.doUnlock(s, in, key, base, pos)
		return true
	case "errors.As":
		// errors.As(err, target): when it reports true, *target holds a non-nil value of target's element type
		tgt, ok := args[1].(If)
		r := c.freshConst("errorsAs", SBool)
		if ok {
			if n, isLit := isIntLit(tgt.Typ); isLit {
				if pt, ok := typeByCode[int(n)].(*types.Pointer); ok {
					oldv := c.loadAt(s, tgt.Val, pt.Elem())
					nv := c.freshValue(s, pt.Elem(), "errorsAs.target")
					if sc, ok := nv.(Sc); ok && isRefType(pt.Elem()) {
						s.assume(Implies(r, Neq(sc.T, IntLit(0))))
					}
					if iv, ok := nv.(If); ok {
						s.assume(Implies(r, Neq(iv.Typ, IntLit(0))))
					}
					c.storeAt(s, tgt.Val, pt.Elem(), c.iteValue(r, nv, oldv))
				}
			}
		}
		if ev, ok := args[0].(If); ok {
			s.assume(Implies(Eq(ev.Typ, IntLit(0)), Not(r)))
		}
		if res != nil {
			c.setVal(s, res, Sc{T: r})
		}
		return true
	case "time.Now":
		if res != nil {
			c.setVal(s, res, Sc{T: c.clockRead(s, pos)})
		}
		return true
	case "time.Since":
		now := c.clockRead(s, pos)
		if res != nil {
			c.setVal(s, res, Sc{T: Sub(now, args[0].(Sc).T)})
		}
		return true
	case "time.(Time).Add":
		c.setVal(s, res, Sc{T: Add(args[0].(Sc).T, args[1].(Sc).T)})
		return true
	case "time.(Time).Sub":
		c.setVal(s, res, Sc{T: Sub(args[0].(Sc).T, args[1].(Sc).T)})
		return true
	case "time.(Time).After":
		c.setVal(s, res, Sc{T: Gt(args[0].(Sc).T, args[1].(Sc).T)})
		return true
	case "time.(Time).Before":
		c.setVal(s, res, Sc{T: Lt(args[0].(Sc).T, args[1].(Sc).T)})
		return true
	case "time.(Time).IsZero":
		c.setVal(s, res, Sc{T: Eq(args[0].(Sc).T, IntLit(0))})
		return true
	case "sync.(*WaitGroup).Add", "sync.(*WaitGroup).Done", "sync.(*WaitGroup).Wait":
		s.seq++
		s.trace = append(s.trace, Event{Name: "wg." + name[strings.LastIndex(name, ".")+1:], Args: args, PC: len(s.pc), Pos: pos, Seq: s.seq})
		return true
	}
	return false
}

type onceCall struct {
	in   ssa.Instruction
	once Term
	fn   Value
	cc   *ssa.CallCommon
}

func (c *Ctx) doLock(s *State, in ssa.Instruction, key string, base Term, write bool, pos string) {
	fk := fnKey(in.Parent())
	ord := c.ordinal("lock", in)
	// not already held by this goroutine (self-deadlock)
	var notHeld []Term
	for _, l := range s.locks {
		if l.Key == key {
			notHeld = append(notHeld, Neq(l.Base, base))
		}
	}
	c.oblige(s, "lock", fmt.Sprintf("%s/lock@%s#%d:not-held:%s", fk, otag(in), ord, key), And(notHeld...), pos, "mutex "+key+" acquired while already held (self-deadlock)", []string{"C13", "C19"})
	// lock levels: strictly increasing acquisition order
	lvl, hasLvl := c.eng.contracts.lockLevels[key]
	okOrder := true
	worst := ""
	for _, l := range s.locks {
		if l.Level >= lvl && hasLvl && l.Level != 0 {
			okOrder = false
			worst = l.Key
		}
	}
	if hasLvl {
		c.structural(okOrder, "locklevel", fmt.Sprintf("%s/lock@%s#%d:level:%s", fk, otag(in), ord, key), pos,
			fmt.Sprintf("lock order: %s (level %d) acquired while holding %s", key, lvl, worst), []string{"C13"})
	}
	if hasLvl {
		if cur := c.eng.contracts.funcs[qualFnName(c.fn)]; cur != nil {
			c.structural(cur.AcquiresLevel > 0 && lvl >= cur.AcquiresLevel, "locklevel", fmt.Sprintf("%s/lock@%s#%d:declared:%s", fk, otag(in), ord, key), pos,
				fmt.Sprintf("%s (level %d) is acquired but the contract of %s declares acquires-level %d", key, lvl, cur.Key, cur.AcquiresLevel), []string{"C13"})
		}
	}
	s.locks = append(s.locks, LockHeld{Key: key, Base: base, Write: write, Level: lvl})
	s.seq++
	evn := "lock:" + key
	if !write {
		evn = "rlock:" + key
	}
	s.trace = append(s.trace, Event{Name: evn, Args: []Value{Sc{T: base}}, PC: len(s.pc), Pos: pos, Seq: s.seq, GW: s.gwrites})
	// time passes while waiting for the lock
	c.getHeap(s, "Clock", SInt)
	c.havocHeap(s, "Clock")
	// guarded state is unknown until acquired: havoc it for this object, then assume the lock invariant
	for _, g := range c.eng.guardsOf(key) {
		c.havocGuarded(s, base, g)
	}
	if li := c.eng.contracts.lockInvs[key]; li != nil {
		env := c.lockEnv(s, li, base, in)
		inv := env.evalBool(li.Body)
		for _, e := range env.errs {
			c.unsupported("lock invariant " + key + ": " + e)
		}
		if len(env.errs) > 0 {
			inv = True
		}
		s.assume(inv)
	}
	if s.atLock == nil {
		if fc := c.eng.contracts.funcs[qualFnName(c.fn)]; fc != nil && in.Parent() == c.fn && len(s.frames) == 1 {
			env := c.loopEnv(s)
			for _, cl := range fc.AssumeAtLock {
				g := env.evalBool(cl.Expr)
				for _, e := range env.errs {
					c.unsupported("assume-at-lock of " + fc.Key + ": " + e)
				}
				env.errs = nil
				s.assume(g)
				c.note("assumed (not proved) in " + fc.Key + " after taking its lock: " + cl.Src)
			}
		}
		s.atLock = s.snapshot()
	}
}

func (c *Ctx) lockEnv(s *State, li *LockInv, base Term, in ssa.Instruction) *Env {
	env := c.loopEnv(s)
	env.frame = nil
	env.vars = map[string]tv{}
	if t := c.eng.namedType(li.Struct); t != nil {
		env.vars[li.Self] = tv{Sc{T: base}, types.NewPointer(t)}
		if n, ok := t.(*types.Named); ok && n.Obj().Pkg() != nil {
			env.pkg = n.Obj().Pkg()
		}
	}
	return env
}

func (c *Ctx) doUnlock(s *State, in ssa.Instruction, key string, base Term, pos string) {
	fk := fnKey(in.Parent())
	ord := c.ordinal("lock", in)
	idx := -1
	var held []Term
	for i, l := range s.locks {
		if l.Key == key {
			held = append(held, Eq(l.Base, base))
			if idx < 0 || l.Base.S == base.S {
				idx = i
			}
		}
	}
	c.oblige(s, "lock", fmt.Sprintf("%s/unlock@%s#%d:held:%s", fk, otag(in), ord, key), Or(held...), pos, "unlock of a mutex that is not held", []string{"C18", "C19"})
	// ghost updates declared for this function happen inside the critical section
	if fc := c.eng.contracts.funcs[qualFnName(c.fn)]; fc != nil && len(fc.GhostAtUnlock) > 0 && in.Parent() == c.fn {
		c.applyGhost(s, fc.GhostAtUnlock)
	}
	if li := c.eng.contracts.lockInvs[key]; li != nil {
		env := c.lockEnv(s, li, base, in)
		inv := env.evalBool(li.Body)
		for _, e := range env.errs {
			c.unsupported("lock invariant " + key + ": " + e)
		}
		props := li.Props
		if len(env.errs) > 0 {
			inv = True // not decided (reported as such), no alarm
		}
		c.oblige(s, "lockinv", fmt.Sprintf("%s/unlock@%s#%d:lockinv:%s", fk, otag(in), ord, key), inv, pos, "lock invariant must hold at release: "+li.Src, props)
	}
	if idx >= 0 {
		s.locks = append(s.locks[:idx:idx], s.locks[idx+1:]...)
	}
	s.seq++
	s.trace = append(s.trace, Event{Name: "unlock:" + key, Args: []Value{Sc{T: base}}, PC: len(s.pc), Pos: pos, Seq: s.seq, GW: s.gwrites})
	if s.atUnlock == nil {
		s.atUnlock = s.snapshot()
	}
}

// applyGhost performs ghost assignments (all right-hand sides are evaluated first).
func (c *Ctx) applyGhost(s *State, gas []GhostAssign) {
	env := c.loopEnv(s)
	env.frame = s.frames[0]
	env.old = s.frames[0].entry
	// parameters denote their entry values
	for i, p := range c.fn.Params {
		if v, ok := c.entryArgs[i]; ok {
			env.vars[p.Name()] = tv{v, p.Type()}
		}
	}
	c.applyGhostEnv(s, env, gas)
}

func (c *Ctx) applyGhostEnv(s *State, env *Env, gas []GhostAssign) {
	type upd struct {
		key  string
		ref  Term
		idx  *Term
		val  Term
		sort Sort
	}
	var ups []upd
	for _, ga := range gas {
		val := env.eval(ga.Value)
		vs, ok := val.v.(Sc)
		if !ok {
			c.unsupported("ghost value " + ga.Src)
			continue
		}
		var sel ESel
		var idxE Expr
		switch t := ga.Target.(type) {
		case ESel:
			sel = t
		case EIndex:
			s2, ok := t.X.(ESel)
			if !ok {
				c.unsupported("ghost target " + ga.Src)
				continue
			}
			sel, idxE = s2, t.I
		default:
			c.unsupported("ghost target " + ga.Src)
			continue
		}
		base := env.eval(sel.X)
		_, ref, ok := env.structOf(base)
		if !ok {
			c.unsupported("ghost target base " + ga.Src)
			continue
		}
		key := shortTypeKey(derefType(base.t)) + "." + sel.Name
		gf, ok := c.eng.contracts.ghosts[key]
		if !ok {
			c.unsupported("not a ghost field: " + key)
			continue
		}
		gt, _ := parseGhostType(gf.Type)
		u := upd{key: key, ref: ref, val: vs.T, sort: sortOfGhost(gt)}
		if idxE != nil {
			iv := env.eval(idxE).v.(Sc).T
			u.idx = &iv
		}
		ups = append(ups, u)
	}
	for _, e := range env.errs {
		c.unsupported("ghost update: " + e)
	}
	for _, u := range ups {
		hn := "G|" + u.key
		h := c.getHeap(s, hn, ArrSort(SInt, u.sort))
		if u.idx != nil {
			c.setHeap(s, hn, Store(h, u.ref, Store(Select(h, u.ref), *u.idx, u.val)))
		} else {
			v := u.val
			if v.Sort != u.sort && u.sort.IsBV() {
				if n, ok := isIntLit(v); ok {
					v = BVLit(uint64(n), u.sort.BVWidth())
				}
			}
			c.setHeap(s, hn, Store(h, u.ref, v))
		}
	}
}

// havocGuarded forgets the value of one guarded field of one object.
func (c *Ctx) havocGuarded(s *State, base Term, g guardedField) {
	if g.ghost {
		hn := "G|" + g.key
		sort, ok := c.eng.heapSorts[hn]
		if !ok {
			gf := c.eng.contracts.ghosts[g.key]
			gt, _ := parseGhostType(gf.Type)
			sort = ArrSort(SInt, sortOfGhost(gt))
		}
		h := c.getHeap(s, hn, sort)
		c.setHeap(s, hn, Store(h, base, c.freshConst("lk|"+g.key, arrElemSort(sort))))
		return
	}
	c.storeField(s, base, g.structT, g.field, c.freshValue(s, g.structT.Underlying().(*types.Struct).Field(g.field).Type(), "lk|"+g.key))
}

type guardedField struct {
	key     string // pkg.T.f
	structT types.Type
	field   int
	ghost   bool
	class   string
	mutex   string // pkg.T.mu
}

// guardCheck: a FieldAddr of a guarded field. The access kind (read/write) is decided at the
// load/store; FieldAddr itself only records provenance. Reads are checked here conservatively
// when the address is immediately loaded.
func (c *Ctx) guardCheck(s *State, x *ssa.FieldAddr, structT types.Type, field int, base Term) {
	gf, ok := c.eng.guardOfField(structT, field)
	if !ok || c.scout > 0 {
		return
	}
	// classify the uses of this address
	write := false
	read := false
	for _, r := range *x.Referrers() {
		switch u := r.(type) {
		case *ssa.Store:
			if u.Addr == ssa.Value(x) {
				write = true
			} else {
				read = true
			}
		case *ssa.DebugRef:
		default:
			read = true
		}
	}
	c.checkGuard(s, x, gf, base, write, read)
}

func (c *Ctx) guardWrite(s *State, in ssa.Instruction, structT types.Type, field int, base Term) {
	// writes are checked at the FieldAddr (guardCheck); nothing more to do here
}

// guardMapAccess: reading or writing the contents of a map that is held in a guarded field.
func (c *Ctx) guardMapAccess(s *State, in ssa.Instruction, mapv ssa.Value, write bool) {
	// find the field the map value was loaded from
	u, ok := mapv.(*ssa.UnOp)
	if !ok {
		return
	}
	fa, ok := u.X.(*ssa.FieldAddr)
	if !ok {
		return
	}
	pt := fa.X.Type().Underlying().(*types.Pointer).Elem()
	gf, ok := c.eng.guardOfField(pt, fa.Field)
	if !ok || c.scout > 0 {
		return
	}
	base, ok := s.top().vals[fa.X].(Sc)
	if !ok {
		return
	}
	c.checkGuardNamed(s, in, gf, base.T, write, !write, "mapcontents")
}

func (c *Ctx) checkGuard(s *State, in ssa.Instruction, gf guardedField, base Term, write, read bool) {
	c.checkGuardNamed(s, in, gf, base, write, read, "field")
}

func (c *Ctx) checkGuardNamed(s *State, in ssa.Instruction, gf guardedField, base Term, write, read bool, what string) {
	if fc := c.eng.contracts.funcs[qualFnName(in.Parent())]; fc != nil {
		if why, ok := fc.TrustedAccess[gf.key]; ok {
			c.note("access to " + gf.key + " in " + fc.Key + " exempt from the lock discipline: " + why)
			return
		}
	}
	// a race on state a function relies on compromises every property that function carries
	gprops := append([]string{"C19"}, c.props...)
	pos := posOf(c.eng.prog, in)
	fk := fnKey(in.Parent())
	ord := c.ordinal("guard", in)
	name := fmt.Sprintf("%s/guard@%s#%d:%s:%s", fk, otag(in), ord, gf.key, what)
	if write {
		s.gwrites++
	}
	switch gf.class {
	case "mutex":
		var alts []Term
		for _, l := range s.locks {
			if l.Key == gf.mutex && (l.Write || !write) {
				alts = append(alts, Eq(l.Base, base))
			}
		}
		// an object that is still private to the allocating function needs no lock
		if c.isFreshLocal(s, base) {
			c.oblige(s, "guard", name, True, pos, "access to freshly allocated (unshared) object", gprops)
			return
		}
		mode := "read"
		if write {
			mode = "write"
		}
		c.oblige(s, "guard", name, Or(alts...), pos, fmt.Sprintf("%s of %s requires %s held%s", mode, gf.key, gf.mutex, map[bool]string{true: " exclusively", false: ""}[write]), gprops)
	case "under":
		ok := c.isFreshLocal(s, base)
		for _, l := range s.locks {
			if l.Key == gf.mutex && (l.Write || !write) {
				ok = true
			}
		}
		mode := "read"
		if write {
			mode = "write"
		}
		c.oblige(s, "guard", name, BoolLit(ok), pos, fmt.Sprintf("%s of %s requires the owner's %s held%s", mode, gf.key, gf.mutex, map[bool]string{true: " exclusively", false: ""}[write]), gprops)
	case "immutable":
		if write {
			c.oblige(s, "guard", name, BoolLit(c.isFreshLocal(s, base)), pos, "write to immutable-after-construction field "+gf.key+" outside its constructor", gprops)
		} else {
			c.oblige(s, "guard", name, True, pos, "read of immutable field", gprops)
		}
	case "confined", "init-before-spawn":
		// accepted on declaration; listed as an assumption in the evidence
		c.oblige(s, "guard", name, True, pos, "field declared "+gf.class, gprops)
	}
}

// isFreshLocal: the object was allocated on this path by the function under verification.
func (c *Ctx) isFreshLocal(s *State, base Term) bool {
	b := base.S
	// a sub-object (embedded struct field) of a freshly allocated object is as fresh as its owner
	for strings.HasPrefix(b, "(|sub!") || strings.HasPrefix(b, "(sub!") || strings.HasPrefix(b, "(|sub|") {
		i := strings.LastIndex(b, " ")
		if i < 0 {
			break
		}
		b = strings.TrimSuffix(b[i+1:], ")")
	}
	return strings.HasPrefix(b, "alloc!") || strings.HasPrefix(b, "|alloc!")
}

// clockRead models a read of the wall clock: a value not smaller than any earlier read
// (ghost variable Clock), strictly after the zero Time.
func (c *Ctx) clockRead(s *State, pos string) Term {
	cur := c.getHeap(s, "Clock", SInt)
	t := c.freshConst("now", SInt)
	s.assume(And(Ge(t, cur), Gt(t, IntLit(0))))
	c.setHeap(s, "Clock", t)
	s.seq++
	s.trace = append(s.trace, Event{Name: "clock", Res: Sc{T: t}, PC: len(s.pc), Pos: pos, Seq: s.seq})
	return t
}
